"""spec -> code replay for AcnSim.tla.

A behaviour emitted by TLC (list of records: start, sched, raise, resume, dumpload, update,
reject, apply, done) is executed through the real acnportal classes.  The real Simulator is
observed at its linearisation points that are reachable without touching the repository:

  * inside scheduler.run()              (after the period's events, before _update_schedules)
  * inside network.post_charging_update (after update_pilots + _store_actual_charging_rates,
                                         before the iteration counter advances)
  * when run() returns or raises

and at each of them the projection of the implementation state is compared with the record the
specification produced for that action.  Every compared field has an *owner* property; the first
mismatch ends the replay and is reported with its owner, so that a check for property X only
raises an alarm for divergences X is responsible for.
"""
import copy
import json
import random
import warnings
from datetime import datetime, timedelta

import numpy as np

from acnportal import acnsim
from acnportal.acnsim import Simulator
from acnportal.acnsim.events import EventQueue, PluginEvent, RecomputeEvent, UnplugEvent
from acnportal.acnsim.models import EV, Battery, Linear2StageBattery, EVSE, DeadbandEVSE, FiniteRatesEVSE
from acnportal.acnsim.network import ChargingNetwork, Current
from acnportal.algorithms import BaseAlgorithm

KWH = 60000.0  # W*min per kWh
START = datetime(2021, 3, 1, 6, 30)


class ScriptedCrash(Exception):
    pass


class Divergence(Exception):
    def __init__(self, owner, field, spec, impl, step, note=""):
        super().__init__("%s %s: spec=%r impl=%r at step %s %s" % (owner, field, spec, impl, step, note))
        self.owner, self.field, self.spec, self.impl, self.step, self.note = owner, field, spec, impl, step, note

    def as_dict(self):
        return {"owner": self.owner, "field": self.field, "spec": _js(self.spec), "impl": _js(self.impl),
                "step": self.step, "note": self.note}


def _js(x):
    try:
        json.dumps(x)
        return x
    except TypeError:
        return repr(x)


def close(x, n, rel=1e-9, abs_=1e-9):
    return abs(float(x) - float(n)) <= max(abs_, rel * max(abs(float(n)), abs(float(x))))


def idx_map(v):
    """ToJson of a TLA+ function with integer domain: list (domain 1..n) or object."""
    if isinstance(v, list):
        return {i + 1: x for i, x in enumerate(v)}
    return {int(k): x for k, x in v.items()}


def sid(s):
    return "ST-%d" % s


def vid(i):
    return "sess-%d" % i


class Variation:
    """Spec-irrelevant choices: anything here must not change the per-station outcome."""

    def __init__(self, rng=None, *, st_perm=None, sess_perm=None, shift=0, evse_kinds=None, dict_shuffle=True,
                 vtypes=True, constraints="none", con_perm=False, mutate=False, twostage=False,
                 store_hist=True, est_seed=0, verbose=False, queue_form="ctor", late_scheduler=False, np_ints=False, sub_events=False, reuse_evs=False, eps_pilots=False, peek=False, legacy_unplug=False,
                 aware_start=False):
        self.rng = rng or random.Random(0)
        self.st_perm, self.sess_perm, self.shift = st_perm, sess_perm, shift
        self.evse_kinds = evse_kinds
        self.dict_shuffle, self.vtypes = dict_shuffle, vtypes
        self.constraints, self.con_perm = constraints, con_perm
        self.mutate, self.twostage, self.store_hist = mutate, twostage, store_hist
        self.est_seed = est_seed
        # how the simulator is put together (documented alternatives; none may matter)
        self.verbose, self.queue_form, self.late_scheduler = verbose, queue_form, late_scheduler
        self.sub_events = sub_events      # events are instances of user subclasses of the three event classes
        self.reuse_evs = reuse_evs        # the EV objects served an earlier simulation and were reset() (documented reuse)
        # a pilot equal to the station's maximum (32 A) is submitted as 32.0005 A: inside the 1e-3 A band every EVSE
        # class accepts, and what is recorded and applied is the submitted value (energies are then not those of the
        # specification: only the implementation's own ledger is compared, as for two-stage batteries)
        self.eps_pilots = eps_pilots
        # the JSON text is rewritten into the form acnportal 0.2.2 wrote (an UnplugEvent carried station_id / session_id
        # instead of its EV) before it is loaded: the documented backward compatibility of UnplugEvent._from_dict
        self.legacy_unplug = legacy_unplug
        self.peek = peek                  # somebody reads the scheduler's interface before / between runs (a look changes nothing)
        self.np_ints = np_ints          # arrivals / departures / event timestamps as numpy integers
        self.aware_start = aware_start  # Simulator.start carries a time zone (the clock is compared by its wall time)

    def describe(self):
        return {k: v for k, v in self.__dict__.items() if k != "rng"}


class RecordingNetwork(ChargingNetwork):
    """post_charging_update is the documented override point; it is called once per period
    after pilots were applied and rates stored."""

    def post_charging_update(self):
        super().post_charging_update()
        cb = getattr(self, "_verif_cb", None)
        if cb is not None:
            cb()

    # keep the serialised class loadable: behave as a plain ChargingNetwork in JSON
    def _to_registry(self, context_dict=None):
        cb = self.__dict__.pop("_verif_cb", None)
        try:
            return super()._to_registry(context_dict)
        finally:
            if cb is not None:
                self._verif_cb = cb


class SitePlugin(PluginEvent):
    """A user extension of an event class (no new behaviour): it is still a Plugin event."""


class SiteUnplug(UnplugEvent):
    pass


class SiteRecompute(RecomputeEvent):
    pass


class ScriptedScheduler(BaseAlgorithm):
    def __init__(self, replay, mr):
        super().__init__()
        self.max_recompute = mr if mr else None
        self._replay = replay

    def schedule(self, active_sessions):
        return self._replay.on_schedule(self, active_sessions)


def used_before(ev):
    """The EV object has a past: it was connected in an earlier simulation (another network), was drawing current in its
    last connected period there, and was then reset() - the documented way to use EV objects again.  Nothing of that
    past may show in the new simulation."""
    past = ChargingNetwork()
    past.register_evse(EVSE(ev.station_id, max_rate=32), 208, 0)
    past.plugin(ev)
    past.update_pilots(np.array([[16.0, 24.0]]), 0, 5)
    past.update_pilots(np.array([[16.0, 24.0]]), 1, 5)
    past.unplug(ev.station_id, ev.session_id)
    ev.reset()


def effective_kinds(start, var):
    """The EVSE class of each station: the variation's choice, unless the specification says that class
    does not accept every pilot of the behaviour's menu (start['accepts'], decided by MenuAcceptedBy in
    AcnSim.tla) - then a continuous EVSE is used."""
    kinds = list(var.evse_kinds or ["cont"] * start["ns"])
    acc = start.get("accepts")
    if acc:
        kinds = [k if acc.get(k, True) else "cont" for k in kinds]
    return kinds


def station_order(ns, var):
    """Registration order of the stations: a permutation given as a list, or "rev" / "shuffle" (any
    number of stations).  The ids are ST-1..ST-n, so every order but the identity is also a
    non-alphabetical one."""
    order = list(range(1, ns + 1))
    if not var.st_perm:
        return order
    if var.st_perm == "rev":
        return order[::-1]
    if var.st_perm == "shuffle":
        random.Random("st-%s-%d" % (var.est_seed, ns)).shuffle(order)
        return order
    return [order[i] for i in var.st_perm]


def station_phase(s, var):
    return [30, -90, 150][(s - 1) % 3] if var.constraints == "3ph" else 0


def build_network(start, var, cls=RecordingNetwork):
    ns, volt = start["ns"], start["volt"]
    order = station_order(ns, var)
    net = cls()
    kinds = effective_kinds(start, var)
    for s in order:
        k = kinds[s - 1]
        if k == "cont":
            evse = EVSE(sid(s), max_rate=32)
        elif k == "deadband":
            evse = DeadbandEVSE(sid(s), deadband_end=6, max_rate=32)
        elif k == "finiteB":
            evse = FiniteRatesEVSE(sid(s), [16, 32])
        elif k == "finiteC":
            evse = FiniteRatesEVSE(sid(s), [6, 12, 18, 24, 30])
        else:
            evse = FiniteRatesEVSE(sid(s), [32, 8, 0, 16, 24])
        net.register_evse(evse, volt[s - 1], station_phase(s, var))
    cons = []
    if var.constraints == "agg":
        cons = [(Current([sid(s) for s in range(1, ns + 1)]), 40.0, "agg"),
                (Current([sid(1)]), 20.0, "first")]
    elif var.constraints == "3ph":
        cons = [(Current({sid(s): (1 if s % 2 else -1) for s in range(1, ns + 1)}), 30.0, "mixed"),
                (Current([sid(ns)]), 500.0, "slack")]
    elif var.constraints == "dup":
        # two limits on the same set of stations with the same coefficients (a cable and the breaker behind it): rows
        # that look alike are still two constraints, and the tighter one binds wherever it was registered
        cons = [(Current([sid(s) for s in range(1, ns + 1)]), 60.0, "cable"),
                (Current([sid(s) for s in range(1, ns + 1)]), 24.0, "breaker"),
                (Current([sid(1)]), 20.0, "first")]
    elif var.constraints == "removed":
        # every constraint has been removed again: the matrix is an empty (0, n) array, not None
        cons = [(Current([sid(1)]), 20.0, "gone")]
    if var.con_perm:
        cons = cons[::-1]
    for cur, lim, name in cons:
        net.add_constraint(cur, lim, name=name)
    if var.constraints == "removed":
        net.remove_constraint("gone")
    return net


def make_queue(events, form, rng):
    """The same pending set handed over in the documented ways: constructor list, add_events in one or
    two batches, add_event one by one (in list order or shuffled)."""
    if form == "ctor":
        return EventQueue(events)
    if form == "generator":     # a one-shot iterator instead of a list
        return EventQueue(e for e in list(events))
    if form == "restored":      # the queue of the scenario, written to JSON and loaded back before the simulation
        return EventQueue.from_json(EventQueue(events).to_json())
    if form == "reused":        # a queue object with a past: it served later periods before, was drained, is refilled
        q = EventQueue([RecomputeEvent(7), RecomputeEvent(3)])
        q.get_current_events(5)
        q.get_event()
        q.add_events(list(events))
        return q
    q = EventQueue()
    ev = list(events)
    if form == "add_events":
        q.add_events(ev)
    elif form == "two_batches":
        h = len(ev) // 2
        q.add_events(ev[h:])
        q.add_events(ev[:h])
    elif form == "add_event":
        for e in ev:
            q.add_event(e)
    else:  # "shuffled"
        rng.shuffle(ev)
        for e in ev:
            q.add_event(e)
    return q


def make_battery(b, var, i=0):
    cap, init, pw = b["cap"] / KWH, b["init"] / KWH, b["pw"] / 1000.0
    if var.twostage:
        # every documented flavour of the two-stage model (the choice depends on the session only, so an
        # interrupted run and its twin use the same batteries)
        flavour = i % 3
        if flavour == 0:
            return Linear2StageBattery(cap * 1.5 + 1e-9, init, pw, transition_soc=0.6)
        if flavour == 1:
            return Linear2StageBattery(cap * 1.2 + 1e-9, init, pw, transition_soc=0.5, charge_calculation="stepwise")
        return Linear2StageBattery(cap * 1.1 + 1e-9, init, pw)
    return Battery(cap, init, pw)


def _scalars(obj):
    """The scalar attributes of an object (what a faithful serialisation has to carry)."""
    out = {"__class__": type(obj).__name__}
    for k, v in sorted(vars(obj).items()):
        if isinstance(v, (bool, int, float, str, type(None))):
            out[k] = v
        elif isinstance(v, np.generic):
            out[k] = v.item()
        elif isinstance(v, (list, tuple, np.ndarray)) and all(isinstance(x, (int, float, np.generic)) for x in np.ravel(v)):
            out[k] = [float(x) for x in np.ravel(v)]
    return out


class Replay:
    """Executes one behaviour.  run() returns None or raises Divergence."""

    def __init__(self, bhv, var=None, compare_spec_energy=True):
        self.bhv = bhv
        self.start = bhv[0]
        assert self.start["a"] == "start"
        self.var = var or Variation()
        self.menu = idx_map(self.start["menu"])
        self.cur = 1  # next record to consume
        self.compare_energy = compare_spec_energy and not self.var.twostage and not self.var.eps_pilots
        self.T = self.start["T"]
        self.pu = float(self.start.get("pu", 1))     # spec pilots are in units of 1/pu ampere
        self.volt = self.start["volt"]
        self.ns = self.start["ns"]
        self.k = self.var.shift
        self.sim = None
        self.obs_log = []  # what the scheduler saw (for evidence / twins)
        self.pending_bad = None
        self._build()

    # ---- construction -----------------------------------------------------------------
    def _build(self):
        st, var = self.start, self.var
        self.start_dt = START
        if var.aware_start:
            import pytz
            self.start_dt = pytz.timezone("America/Los_Angeles").localize(START)
        self.net = build_network(st, var)
        self.net._verif_cb = self.on_post_charging
        sess = st["sess"]
        self.evs = {}
        self.est = {}
        events = []
        order = list(range(len(sess)))
        if var.sess_perm:
            order = [order[i] for i in var.sess_perm if i < len(order)] + \
                    [i for i in order if i not in var.sess_perm]
        for i0 in order:
            x = sess[i0]
            # the user's *estimate* of the departure is irrelevant to the simulator itself (only
            # schedulers read it): vary it so that nothing in the simulator can depend on it
            est = x["dep"] + random.Random("%s-%d" % (var.est_seed, i0)).choice([-1, 0, 0, 2, 5])
            if est <= x["arr"]:
                est = x["dep"]
            self.est[i0 + 1] = est + self.k
            I = (lambda v: np.int64(v)) if var.np_ints and i0 % 2 == 0 else int
            ev = EV(I(x["arr"] + self.k), I(x["dep"] + self.k), x["req"] / KWH, sid(x["st"]), vid(i0 + 1),
                    make_battery(x, var, i0), estimated_departure=I(est + self.k))
            self.evs[i0 + 1] = ev
            if var.reuse_evs:
                used_before(ev)
            events.append((SitePlugin if var.sub_events else PluginEvent)(I(x["arr"] + self.k), ev))
        RecomputeEvent_, UnplugEvent_ = (SiteRecompute, SiteUnplug) if var.sub_events else (RecomputeEvent, UnplugEvent)
        # the scenario's extra events: r < 1000 a Recompute at period r; r = 1000*i + x a stray (second) Unplug notice for
        # session i at period x > its departure (AcnSim.tla: ExtraEvents)
        rec = [RecomputeEvent_(np.int64(r + self.k) if var.np_ints else r + self.k) for r in st["recomp"] if r < 1000]
        rec += [UnplugEvent_(r % 1000 + self.k, self.evs[r // 1000]) for r in st["recomp"] if r >= 1000]
        if var.sess_perm:
            var.rng.shuffle(rec)
            events = rec + events
        else:
            events = events + rec
        self.sched = ScriptedScheduler(self, st["mr"])
        late_events = []
        if var.queue_form == "after_ctor" and len(events) > 1:
            # the simulator is built on a queue that holds only the earliest event; the rest is queued afterwards
            # (before run() is called): arrays allocated at construction have to grow
            first = min(events, key=lambda e: (e.timestamp, e.precedence))
            late_events = [e for e in events if e is not first]
            queue = EventQueue([first])
        elif var.queue_form == "empty_ctor":
            # the simulator is built on a queue that is still empty; the caller fills it afterwards
            late_events = list(events)
            queue = EventQueue()
        else:
            queue = make_queue(events, "ctor" if var.queue_form == "after_ctor" else var.queue_form, var.rng)
        if var.late_scheduler:      # built without a scheduler, which is attached afterwards (update_scheduler)
            self.sim = Simulator(self.net, None, queue, self.start_dt, period=self.T, verbose=var.verbose,
                                 store_schedule_history=var.store_hist)
            self.sim.update_scheduler(self.sched)
        else:
            self.sim = Simulator(self.net, self.sched, queue, self.start_dt, period=self.T, verbose=var.verbose,
                                 store_schedule_history=var.store_hist)
        if late_events:
            # through the caller's own reference to the queue object, or through the simulator's attribute
            (queue if var.rng.random() < 0.5 else self.sim.event_queue).add_events(late_events)

    # ---- helpers ----------------------------------------------------------------------
    def _next(self, *kinds):
        if self.cur >= len(self.bhv):
            return None
        r = self.bhv[self.cur]
        return r if r["a"] in kinds else None

    def _peek_kind(self):
        return self.bhv[self.cur]["a"] if self.cur < len(self.bhv) else "<end>"

    def _consume(self):
        r = self.bhv[self.cur]
        self.cur += 1
        return r

    def _chk(self, owner, field, spec, impl, ok=None):
        if ok is None:
            ok = spec == impl
        if not ok:
            raise Divergence(owner, field, spec, impl, self.cur - 1)

    def _session_index(self, ev):
        return int(ev.session_id.split("-")[1]) if ev is not None else 0

    def impl_occ(self):
        return [self._session_index(self.sim.network.get_ev(sid(s))) for s in range(1, self.ns + 1)]

    def row(self, s):
        return self.sim.network.station_ids.index(sid(s))

    def impl_evhist(self):
        out = []
        for e in self.sim.event_history:
            ts = int(e.timestamp)       # (timestamps may be numpy integers: a variation of the replay)
            if e.event_type == "Recompute":
                out.append(("Recompute", ts - self.k, 100 + ts - self.k))
            else:
                out.append((e.event_type, ts - self.k, self._session_index(e.ev)))
        return out

    def peak_spec(self, peakN):
        return peakN / float(self.start["vl"] * self.T)

    # ---- observation point 1: the scheduler is invoked ----------------------------------
    def on_schedule(self, alg, active_sessions):
        if self.sim.iteration < self.k:      # time-shifted replay: nothing is scripted before period k
            return {}
        r = self._next("sched", "raise")
        if r is None:
            raise Divergence("C05", "invocation", "no invocation (next spec action: %s)" % self._peek_kind(),
                             "scheduler invoked at iteration %d" % self.sim.iteration, self.cur)
        self._consume()
        self.compare_obs(r["obs"], alg.interface, active_sessions)
        if self.var.mutate:
            self.scribble(alg.interface, active_sessions)
        if r["a"] == "raise":
            raise ScriptedCrash()
        m = self.menu[r["ret"]]
        self.pending_bad = m if m["kind"] != "ok" else None
        # C04: a schedule that is rejected must leave *every* piece of state as it was when the scheduler
        # was asked (recompute flag and last-update period included): remember it
        self.pre_reject = self.snapshot() if self.pending_bad is not None else None
        return self.realise(m, alg.interface)

    def pv(self, x):
        """The ampere value for the specification's pilot x (units of 1/pu A)."""
        v = x / self.pu
        if self.var.eps_pilots and v == 32.0:
            return 32.0005
        return v

    def realise(self, m, iface=None):
        rows = idx_map(m["rows"]) if m["rows"] not in ([], {}) else {}
        rng = self.var.rng
        if self.var.eps_pilots:
            items = [(sid(s), [self.pv(x) for x in v]) for s, v in rows.items()]
        elif self.pu == 1:
            items = [(sid(s), list(v)) for s, v in rows.items()]
        else:       # non-integral pilots: integral values stay ints, so a row may mix ints and floats
            items = [(sid(s), [x // int(self.pu) if x % int(self.pu) == 0 else x / self.pu for x in v])
                     for s, v in rows.items()]
        if m["kind"] == "unknown":
            items.append(("NOPE-99", [0] * m["len"]))
        if m["kind"] == "ragged":
            items[0] = (items[0][0], items[0][1] + [0])
        if m["kind"] == "ragged1":
            j = rng.randrange(len(items))
            items[j] = (items[j][0], items[j][1][:1])
        if (iface is not None and m["kind"] == "ok" and m["len"] >= 1 and len(items) == self.ns and self.var.vtypes
                and rng.random() < 0.5):
            # the documented helper for algorithms that work on arrays: rows in the order of the infrastructure's
            # station_ids, a 1-D array for a one-period schedule
            from acnportal.algorithms.postprocessing import format_array_schedule
            info = iface.infrastructure_info()
            byid = dict(items)
            arr = np.array([byid[st] for st in info.station_ids], dtype=float)
            return format_array_schedule(arr[:, 0] if m["len"] == 1 and rng.random() < 0.5 else arr, info)
        if self.var.dict_shuffle:
            rng.shuffle(items)
        out = {}
        for key, vals in items:
            if self.var.vtypes:
                c = rng.randrange(4)
                if c == 1:
                    vals = [float(x) for x in vals]
                elif c == 2:
                    vals = np.array(vals, dtype=float)
                elif c == 3:
                    vals = [np.float64(x) for x in vals]
            out[key] = vals
        return out

    def compare_obs(self, obs, iface, active_sessions):
        t = obs["t"] + self.k
        # C01: the period's events have been applied before the scheduler runs
        self._chk("C01", "occ@sched", obs["occ"], self.impl_occ())
        self._chk("C01", "events_processed@sched", obs["nev"], len(self.sim.event_history))
        self._chk("C01", "queue_len@sched", obs["qlen"], len(self.sim.event_queue))
        # C05: what the scheduler observes
        self._chk("C05", "current_time", t, iface.current_time)
        # (wall clock: the JSON format stores the start without its zone, by design of its strftime format)
        self._chk("C05", "current_datetime", START + timedelta(minutes=self.T) * t,
                  iface.current_datetime.replace(tzinfo=None))
        act = obs["active"] if isinstance(obs["active"], list) else []
        seen_ids = sorted(self._session_index_from_id(s.session_id) for s in active_sessions)
        if self.compare_energy:
            self._chk("C05", "active_sessions", sorted(act), seen_ids)
        else:
            # which connected sessions still need energy depends on the battery law, which the specification predicts
            # for the ideal battery only: here the sessions shown must at least all be connected ones
            connected = sorted(i for i in obs["occ"] if i)
            self._chk("C05", "active_sessions (subset of the connected sessions)", connected, seen_ids,
                      set(seen_ids) <= set(connected))
        evE, lastE, lastP = obs["evE"], obs["lastE"], obs["lastP"]
        evE = dict(zip(sorted(act), evE)) if isinstance(evE, list) else idx_map(evE)
        lastE = dict(zip(sorted(act), lastE)) if isinstance(lastE, list) else idx_map(lastE)
        sess = self.start["sess"]
        rates = iface.last_actual_charging_rate
        if self.compare_energy:
            self._chk("C05", "last_actual_charging_rate.keys", sorted(vid(i) for i in act), sorted(rates))
        for s in active_sessions:
            i = self._session_index_from_id(s.session_id)
            x = sess[i - 1]
            self._chk("C05", "session.station_id", sid(x["st"]), s.station_id)
            self._chk("C05", "session.arrival", x["arr"] + self.k, s.arrival)
            self._chk("C05", "session.departure", x["dep"] + self.k, s.departure)
            self._chk("C05", "session.estimated_departure", self.est[i], s.estimated_departure)
            self._chk("C05", "session.current_time", t, s.current_time)
            self._chk("C05", "session.remaining_time", x["dep"] - obs["t"], s.remaining_time)
            self._chk("C05", "session.arrival_offset", 0, s.arrival_offset)
            self._chk("C05", "session.requested_energy", x["req"] / KWH, s.requested_energy,
                      close(s.requested_energy, x["req"] / KWH))
            if self.compare_energy:
                self._chk("C05", "session.energy_delivered", evE[i] / KWH, s.energy_delivered,
                          close(s.energy_delivered, evE[i] / KWH))
                v = self.volt[x["st"] - 1]
                # remaining demand, in kWh and in A*periods: (req - evE) W*min over V*T W*min per A*period
                rem = (x["req"] - evE[i])
                self._chk("C05", "session.remaining_demand", rem / KWH, s.remaining_demand,
                          close(s.remaining_demand, rem / KWH, abs_=1e-12))
                rap = iface.remaining_amp_periods(s)
                self._chk("C05", "remaining_amp_periods", rem / (v * self.T), rap, close(rap, rem / (v * self.T), abs_=1e-9))
                self._chk("C05", "last_actual_charging_rate", lastE[i] / (v * self.T), rates[s.session_id],
                          close(rates[s.session_id], lastE[i] / (v * self.T)))
        # pilots of the previous period (from the third period on)
        lp = iface.last_applied_pilot_signals
        if self.k:
            pass  # "from the third period on" is anchored at period 0: not comparable under a shift
        elif isinstance(lastP, list):
            keys = sorted(i for i in act if sess[i - 1]["arr"] <= obs["t"] - 1) if obs["t"] - 1 > 0 else []
            lastP = dict(zip(keys, lastP))
        else:
            lastP = idx_map(lastP)
        if not self.k and self.compare_energy:
            self._chk("C05", "last_applied_pilot_signals.keys", sorted(vid(i) for i in lastP), sorted(lp))
            for i, p in lastP.items():
                self._chk("C05", "last_applied_pilot_signals", self.pv(p), lp[vid(i)], close(lp[vid(i)], self.pv(p)))
        if self.compare_energy:
            self._chk("C05", "prev_peak", self.peak_spec(obs["peakN"]), iface.get_prev_peak(),
                      close(iface.get_prev_peak(), self.peak_spec(obs["peakN"])))
        # the infrastructure description
        try:
            info = iface.infrastructure_info()
        except Exception as e:  # noqa
            raise Divergence("C06" if not len(self.expected_constraint_ids) else "C05",
                             "infrastructure_info()", "a description of the infrastructure",
                             "%s: %s" % (type(e).__name__, e), self.cur - 1)
        net = self.net
        self._chk("C05", "infra.station_ids", net.station_ids, list(info.station_ids))
        for s in range(1, self.ns + 1):
            j = info.get_station_index(sid(s))
            self._chk("C05", "infra.voltage", self.volt[s - 1], float(info.voltages[j]))
            self._chk("C05", "infra.max_pilot", 32.0, float(info.max_pilot[j]))
            self._chk("C05", "evse_voltage", self.volt[s - 1], float(iface.evse_voltage(sid(s))))
            self._chk("C05", "max_pilot_signal", 32.0, float(iface.max_pilot_signal(sid(s))))
        self.compare_station_descriptions(iface, info)
        self._chk("C05", "infra.constraint_ids", list(self.expected_constraint_ids), list(info.constraint_ids))
        if len(self.expected_constraint_ids):
            self._chk("C05", "infra.constraint_matrix", self.expected_cm.tolist(),
                      np.asarray(info.constraint_matrix).tolist())
            self._chk("C05", "infra.constraint_limits", self.expected_lim.tolist(),
                      np.asarray(info.constraint_limits).tolist())
        self.obs_log.append({"t": obs["t"], "active": sorted(act)})

    def compare_station_descriptions(self, iface, info):
        """Limits, phases and allowable pilots of every station, as the specification describes the
        station's EVSE class (KindTab in AcnSim.tla, from EVSEDefs.tla; currents in 1e-4 A)."""
        tab = self.start.get("kindtab")
        if not tab:
            return
        kinds = self.station_kinds()
        for s in range(1, self.ns + 1):
            d = tab[kinds[s - 1]]
            j = info.get_station_index(sid(s))
            want_allow = sorted(x / 1e4 for x in d["allow"])
            self._chk("C05", "infra.phases[%s]" % sid(s), float(self.phase_of(s)), float(info.phases[j]))
            self._chk("C05", "evse_phase[%s]" % sid(s), float(self.phase_of(s)), float(iface.evse_phase(sid(s))))
            self._chk("C05", "infra.max_pilot[%s]" % sid(s), d["max"] / 1e4, float(info.max_pilot[j]))
            self._chk("C05", "infra.min_pilot[%s]" % sid(s), d["min"] / 1e4, float(info.min_pilot[j]))
            self._chk("C05", "infra.is_continuous[%s]" % sid(s), bool(d["cont"]), bool(info.is_continuous[j]))
            self._chk("C05", "infra.allowable_pilots[%s]" % sid(s), want_allow,
                      sorted(float(x) for x in info.allowable_pilots[j]))
            cont, allow = iface.allowable_pilot_signals(sid(s))
            self._chk("C05", "allowable_pilot_signals[%s]" % sid(s), [bool(d["cont"]), want_allow],
                      [bool(cont), sorted(float(x) for x in allow)])
            self._chk("C05", "min_pilot_signal[%s]" % sid(s), d["min"] / 1e4, float(iface.min_pilot_signal(sid(s))))
            self._chk("C05", "max_pilot_signal[%s]" % sid(s), d["max"] / 1e4, float(iface.max_pilot_signal(sid(s))))

    def station_kinds(self):
        return effective_kinds(self.start, self.var)

    def phase_of(self, s):
        return station_phase(s, self.var)

    def _session_index_from_id(self, session_id):
        return int(session_id.split("-")[1])

    def scribble(self, iface, active_sessions):
        """A hostile scheduler: mutate everything it was handed through the public Interface."""
        for s in active_sessions:
            s.energy_delivered = -7.0
            s.requested_energy = 1e6
            s.station_id = "hijack"
            s.departure = -1
            s.max_rates[:] = 0
        for s in iface.active_sessions():
            s.energy_delivered = 99
        info = iface.infrastructure_info()
        for arr in (info.constraint_matrix, info.constraint_limits, info.voltages, info.phases, info.max_pilot,
                    info.min_pilot):
            try:
                if arr is not None and getattr(arr, "size", 0):
                    arr[...] = 777.0
            except (TypeError, ValueError):
                pass
        try:
            info.station_ids.reverse()
            for a in info.allowable_pilots:
                a[...] = 1.0
            info.is_continuous[...] = False
        except Exception:
            pass
        c = iface.get_constraints()
        for arr in (c.constraint_matrix, c.magnitudes):
            try:
                if arr is not None and getattr(arr, "size", 0):
                    arr[...] = 555.0
            except (TypeError, ValueError):
                pass
        for lst in (c.constraint_index, c.evse_index):
            try:
                lst.append("junk")
            except Exception:
                pass
        with warnings.catch_warnings():
            warnings.simplefilter("ignore")
            for ev in iface.active_evs:
                ev._energy_delivered = 1e3
                ev._battery._current_charge = 0
                ev._station_id = "hijack"
        d = iface.last_applied_pilot_signals
        d["junk"] = 1
        d = iface.last_actual_charging_rate
        d["junk"] = 1
        for s in range(1, self.ns + 1):
            cont, allow = iface.allowable_pilot_signals(sid(s))
            try:
                allow[:] = [1, 2]
            except Exception:
                pass

    # ---- observation point 2: a period has been applied -----------------------------------
    def on_post_charging(self):
        if self.sim.iteration < self.k:
            return
        r = self._next("update")
        if r is not None:
            self._consume()
            self.compare_pilots(r["pilots"], "pilots@update")
            self.compare_warning(r)
            self.pending_bad = None
        r = self._next("apply")
        if r is None:
            kind = self._peek_kind()
            if kind in ("sched", "raise"):
                raise Divergence("C05", "invocation", "scheduler invoked in period %d" % self.bhv[self.cur]["obs"]["t"],
                                 "no invocation before pilots were applied at iteration %d" % self.sim.iteration,
                                 self.cur)
            if kind == "reject":
                raise Divergence("C04", "malformed_schedule_accepted", "the schedule is rejected with an exception, nothing changes",
                                 "no exception: a period was applied at iteration %d" % self.sim.iteration, self.cur)
            raise Divergence("C01", "period", "next spec action %s" % kind,
                             "a period was applied at iteration %d" % self.sim.iteration, self.cur)
        self._consume()
        sim = self.sim
        t = r["t"] + self.k
        self._chk("C01", "iteration@apply", t, sim.iteration)
        self._chk("C01", "occ@apply", r["occ"], self.impl_occ())
        for s in range(1, self.ns + 1):
            j = self.row(s)
            p_impl = float(sim.pilot_signals[j, t]) if t < sim.pilot_signals.shape[1] else 0.0
            want = self.pv(r["P"][s - 1])
            self._chk("C04", "pilot_signals[%s,%d]" % (sid(s), t), want, p_impl, close(p_impl, want))
            cp = float(sim.network._EVSEs[sid(s)].current_pilot)
            self._chk("C04", "evse.current_pilot[%s]@%d" % (sid(s), t), want, cp, close(cp, want))
        for s in range(1, self.ns + 1):
            j = self.row(s)
            rate = float(sim.charging_rates[j, t])
            p_impl = float(sim.pilot_signals[j, t])
            # C03 in-simulation form: 0 <= rate <= pilot
            self._chk("C03", "0<=rate<=pilot[%s,%d]" % (sid(s), t), "0 <= rate <= %g" % p_impl, rate,
                      -1e-9 <= rate <= p_impl + 1e-9)
            if r["occ"][s - 1] == 0:
                self._chk("C02", "vacant_rate[%s,%d]" % (sid(s), t), 0, rate, rate == 0)
            if self.compare_energy:
                e_impl = rate * self.volt[s - 1] * self.T
                self._chk("C02", "charging_rates[%s,%d]*V*T" % (sid(s), t), r["E"][s - 1], e_impl,
                          close(e_impl, r["E"][s - 1]))
        # the network's own views of the period (what _store_actual_charging_rates and schedulers read)
        cur = sim.network.current_charging_rates
        for s in range(1, self.ns + 1):
            j = self.row(s)
            self._chk("C02", "network.current_charging_rates[%s]@%d" % (sid(s), t), float(sim.charging_rates[j, t]),
                      float(cur[j]))
            ev = sim.network.get_ev(sid(s))
            self._chk("C01", "network.get_ev[%s].station_id@%d" % (sid(s), t), sid(s) if r["occ"][s - 1] else None,
                      ev.station_id if ev is not None else None)
        # the ledger across the three separately stored quantities, for ANY battery model (no spec value needed):
        # EV energy = sum of recorded rate * V * T over its connected periods = charge gained by its battery
        if not hasattr(self, "_acc"):
            self._acc = {}
        for s in range(1, self.ns + 1):
            i = r["occ"][s - 1]
            if i:
                self._acc[i] = self._acc.get(i, 0.0) + float(sim.charging_rates[self.row(s), t]) * self.volt[s - 1] * self.T
        for i, e_rates in self._acc.items():
            ev = self.live_ev(i)
            self._chk("C02", "ledger: energy_delivered vs recorded rates[%d]@%d" % (i, t), e_rates, ev.energy_delivered * KWH,
                      close(ev.energy_delivered * KWH, e_rates, rel=1e-9, abs_=1e-6))
            gained = (ev._battery._current_charge - ev._battery._init_charge) * KWH
            self._chk("C02", "ledger: battery gain vs energy_delivered[%d]@%d" % (i, t), ev.energy_delivered * KWH, gained,
                      close(gained, ev.energy_delivered * KWH, rel=1e-9, abs_=1e-6))
        if self.compare_energy:
            sess = self.start["sess"]
            want_active = sorted(sid(sess[i - 1]["st"]) for i in r["occ"] if i and sess[i - 1]["req"] - r["evE"][i - 1] > 60)
            self._chk("C05", "network.active_station_ids@%d" % t, want_active, sorted(sim.network.active_station_ids))
        if self.compare_energy:
            for i, ev in self.evs.items():
                ev = self.live_ev(i)
                self._chk("C02", "ev.energy_delivered[%d]@%d" % (i, t), r["evE"][i - 1], ev.energy_delivered * KWH,
                          close(ev.energy_delivered * KWH, r["evE"][i - 1]))
                ch = ev._battery._current_charge * KWH
                self._chk("C02", "battery.charge[%d]@%d" % (i, t), r["chg"][i - 1], ch, close(ch, r["chg"][i - 1]))
            self._chk("C02", "peak@%d" % t, self.peak_spec(r["peakN"]), sim.peak,
                      close(sim.peak, self.peak_spec(r["peakN"])))

    def live_ev(self, i):
        """The EV object the simulator currently uses for session i (after a JSON load the
        original Python objects are stale)."""
        sim = self.sim
        if vid(i) in sim.ev_history:
            return sim.ev_history[vid(i)]
        for ts, e in sim.event_queue.queue:
            if e.event_type == "Plugin" and e.ev.session_id == vid(i):
                return e.ev
        return self.evs[i]

    def compare_pilots(self, spec_pilots, what, owner="C04"):
        sim = self.sim
        w = sim.pilot_signals.shape[1]
        for s in range(1, self.ns + 1):
            j = self.row(s)
            rowspec = spec_pilots[s - 1]
            for k0, p in enumerate(rowspec):
                k = k0 + self.k
                p = self.pv(p)
                p_impl = float(sim.pilot_signals[j, k]) if k < w else 0.0
                self._chk(owner, "%s[%s,%d]" % (what, sid(s), k0), p, p_impl, close(p_impl, p))
            for k in list(range(0, min(self.k, w))) + list(range(len(rowspec) + self.k, w)):
                self._chk(owner, "%s[%s,%d] beyond" % (what, sid(s), k), 0, float(sim.pilot_signals[j, k]),
                          float(sim.pilot_signals[j, k]) == 0.0)

    # ---- state projection used for "nothing changed" comparisons ----------------------------
    def snapshot(self):
        sim = self.sim
        q = sorted((int(ts), e.event_type, e.ev.session_id if hasattr(e, "ev") else "") for ts, e in sim.event_queue.queue)
        evs = {}
        for i in self.evs:
            ev = self.live_ev(i)
            evs[i] = (ev.energy_delivered, ev.current_charging_rate, ev._battery._current_charge,
                      ev._battery._current_charging_power, ev.station_id, _scalars(ev), _scalars(ev._battery))
        return {
            "t": sim.iteration, "resolve": sim._resolve, "lastUpd": sim._last_schedule_update,
            "pilots": sim.pilot_signals.tolist(), "rates": sim.charging_rates.tolist(), "peak": float(sim.peak),
            "queue": q, "occ": self.impl_occ(), "evhist": self.impl_evhist(), "seen": sorted(sim.ev_history),
            "evs": evs, "evse_pilot": [float(sim.network._EVSEs[sid(s)].current_pilot) for s in range(1, self.ns + 1)],
            "schedhist": sorted(sim.schedule_history) if sim.schedule_history is not None else None,
            "evses": [_scalars(sim.network._EVSEs[sid(s)]) for s in range(1, self.ns + 1)],
            "sim": {k: v for k, v in _scalars(sim).items() if k not in ("__class__",)},
        }

    # ---- the driver -------------------------------------------------------------------------
    def run(self):
        import contextlib
        import io
        with warnings.catch_warnings(record=True) as wl, contextlib.redirect_stdout(io.StringIO()):
            warnings.simplefilter("always")
            self._wlist, self._wseen = wl, 0
            self._prepare_expected()
            return self._run()

    def new_schedule_warnings(self):
        """'Invalid schedule provided ...' warnings emitted since the last look."""
        wl = getattr(self, "_wlist", None)
        if wl is None:
            return None
        new = [str(w.message) for w in wl[self._wseen:] if "Invalid schedule provided" in str(w.message)]
        self._wseen = len(wl)
        if len(wl) > 2000:      # keep the list short over long runs
            del wl[:]
            self._wseen = 0
        return new

    def compare_warning(self, r):
        """C06 inside the simulator: _update_schedules warns exactly when the submitted schedule violates a
        constraint (spec: Warning(ConsAgg, m)), naming the worst constraint and column."""
        got = self.new_schedule_warnings()
        if got is None or "warnAgg" not in r or self.k or self.var.eps_pilots:
            return      # (with pilots moved by 0.5 mA the aggregates are not the specification's)
        cons = self.var.constraints
        if cons in ("none", "removed"):
            self._chk("C06", "schedule_warning(no constraints)", [], got)
            return
        if cons != "agg":
            return
        w = r["warnAgg"]
        self._chk("C06", "schedule_warning@%d" % r["t"], bool(w["warn"]), len(got) > 0)
        if not w["warn"]:
            return
        self._chk("C06", "schedule_warning.count@%d" % r["t"], 1, len(got))
        import re
        m = re.search(r"Max violation is ([-0-9.e]+) A on (\S+) at time index (\d+)", got[0])
        self._chk("C06", "schedule_warning.text", "Max violation is <d> A on <constraint> at time index <k>", got[0], m is not None)
        # reported excess: aggregate - (limit + absolute tolerance 1e-5 A)
        want = w["ex"] / self.pu - 1e-5
        self._chk("C06", "schedule_warning.excess@%d" % r["t"], want, float(m.group(1)), close(float(m.group(1)), want, abs_=1e-9))
        if not w["tie"]:
            self._chk("C06", "schedule_warning.cell@%d" % r["t"], [w["name"], w["k"]], [m.group(2), int(m.group(3))])

    def _prepare_expected(self):
        net = self.net
        self.expected_constraint_ids = list(net.constraint_index)
        self.expected_cm = None if net.constraint_matrix is None else np.array(net.constraint_matrix, copy=True)
        self.expected_lim = np.array(net.magnitudes, copy=True)

    def _run(self):
        if self._next("dumpload") is not None:          # a JSON round trip before the first run()
            self._consume()
            self.dump_load(self.snapshot())
        while True:
            before = None
            if self.var.peek and self.sim.scheduler is not None:
                # a read-only look through the interface while run() is not executing (a dashboard, a debugger, a
                # register_interface override): observing the simulation must not change it
                iface = self.sim.scheduler.interface
                for look in (lambda: iface.active_sessions(), lambda: iface.last_applied_pilot_signals,
                             lambda: iface.last_actual_charging_rate, lambda: iface.current_time,
                             lambda: iface.infrastructure_info(), lambda: iface.get_prev_peak()):
                    try:
                        look()
                    except Exception:  # noqa  (what a look returns before the first period is not specified)
                        pass
            try:
                self.sim.run()
            except ScriptedCrash:
                outcome = "crash"
            except Divergence:
                raise
            except Exception as e:  # noqa
                outcome = e
            else:
                outcome = "returned"
            if outcome == "returned":
                if self._next("dumpload") is not None:  # ... and one of the completed simulation
                    self._consume()
                    self.dump_load(self.snapshot())
                r = self._next("done")
                if r is None:
                    kind = self._peek_kind()
                    owner = "C09" if self._crashed_before() else "C01"
                    raise Divergence(owner, "termination", "run() still has work: next spec action %s" % kind,
                                     "run() returned at iteration %d" % self.sim.iteration, self.cur)
                self._consume()
                self.compare_final(r)
                return None
            if outcome == "crash":
                pass
            else:
                r = self._next("reject")
                if r is None or self.pending_bad is None:
                    owner = "C04" if self._peek_kind() == "update" else ("C09" if self._crashed_before() else "C01")
                    raise Divergence(owner, "exception", "no exception (next spec action %s)" % self._peek_kind(),
                                     "%s: %s" % (type(outcome).__name__, outcome), self.cur)
                self._consume()
                self.pending_bad = None
                # nothing may have changed: the spec's pilots at this point are in the record
                self.compare_pilots(r["pilots"], "pilots@reject")
                self._chk("C04", "iteration@reject", r["t"] + self.k, self.sim.iteration)
                if getattr(self, "pre_reject", None) is not None:
                    now = self.snapshot()
                    for key in now:
                        self._chk("C04", "state_changed_by_rejected_schedule." + key, self.pre_reject[key], now[key],
                                  _deep_close(self.pre_reject[key], now[key]))
                    self.pre_reject = None
            # stopped: optional JSON round trip, then resume
            snap = self.snapshot()
            r = self._next("dumpload")
            if r is not None:
                self._consume()
                self.dump_load(snap)
            r = self._next("resume")
            if r is None:
                raise Divergence("C09", "script", "resume", self._peek_kind(), self.cur)
            self._consume()

    def _crashed_before(self):
        return any(x["a"] in ("raise", "reject", "dumpload") for x in self.bhv[: self.cur])

    def json_round_trip(self):
        """to_json / from_json through one of the three documented targets: a string, a file object, a path."""
        import io
        import os
        import tempfile
        form = self.var.rng.randrange(3)
        if self.var.legacy_unplug and sum(1 for r in self.bhv if r["a"] == "dumpload") == 1:
            # (only when this is the behaviour's single round trip: a simulator loaded from the old format holds
            # partially built EVs in its Unplug events and cannot be dumped again)
            reg = json.loads(self.sim.to_json())
            ctx = reg["context_dict"]
            for obj in ctx.values():
                if obj["class"].endswith(("UnplugEvent", "SiteUnplug")) and "ev" in obj["attributes"]:
                    ev = ctx[obj["attributes"].pop("ev")]["attributes"]
                    obj["attributes"]["station_id"], obj["attributes"]["session_id"] = ev["_station_id"], ev["_session_id"]
            self.legacy_loaded = True
            return Simulator.from_json(json.dumps(reg))
        if form == 0:
            return Simulator.from_json(self.sim.to_json())
        if form == 1:
            buf = io.StringIO()
            self.sim.to_json(buf)
            buf.seek(0)
            return Simulator.from_json(buf)
        fd, path = tempfile.mkstemp(suffix=".json", prefix="verif-sim-")
        os.close(fd)
        try:
            self.sim.to_json(path)
            return Simulator.from_json(path)
        finally:
            os.unlink(path)

    def dump_load(self, snap):
        sim2 = self.json_round_trip()
        # the documented way to continue: give the loaded simulator its scheduler again
        # ("given its scheduler again": the very scheduler object that drove the run so far - still bound to the old
        # simulator's interface - in half of the cases, a freshly constructed one in the others)
        if self.sched is None or self.var.rng.random() < 0.5:
            self.sched = ScriptedScheduler(self, self.start["mr"])
        sim2.update_scheduler(self.sched)
        self.sim = sim2
        self.net = sim2.network
        # RecordingNetwork was serialised under its own class name; make sure the hook is back
        if not isinstance(self.net, RecordingNetwork):
            self.net.__class__ = RecordingNetwork
        self.net._verif_cb = self.on_post_charging
        after = self.snapshot()
        for key in snap:
            if key == "schedhist" and not self.var.store_hist:
                continue
            self._chk("C09", "json_roundtrip." + key, snap[key], after[key], _deep_close(snap[key], after[key]))
        self.check_sharing()

    def check_sharing(self):
        """Every reference to a session - from its station, the session history, pending and processed events - is one
        object (a pending event may belong to a session that has not been plugged in yet: its references are then
        the queue's own, e.g. the Plugin event and a stray Unplug notice)."""
        sim = self.sim
        refs = {}
        for s in range(1, self.ns + 1):
            ev = sim.network.get_ev(sid(s))
            if ev is not None:
                refs.setdefault(ev.session_id, []).append(("station", ev))
        for k, ev in sim.ev_history.items():
            refs.setdefault(k, []).append(("ev_history", ev))
        for ts, e in sim.event_queue.queue:
            if e.event_type == "Unplug" and getattr(self, "legacy_loaded", False):
                continue        # loaded from the 0.2.2 format: a stand-in EV that carries the two ids only (documented)
            if e.event_type in ("Plugin", "Unplug"):
                refs.setdefault(e.ev.session_id, []).append(("pending " + e.event_type, e.ev))
        for e in sim.event_history:
            if e.event_type == "Unplug" and getattr(self, "legacy_loaded", False) and not hasattr(e.ev, "_battery"):
                continue
            if e.event_type in ("Plugin", "Unplug"):
                refs.setdefault(e.ev.session_id, []).append(("event_history", e.ev))
        for k, lst in refs.items():
            first_name, first = lst[0]
            for name, ev in lst[1:]:
                self._chk("C09", "shared_ev(%s,%s)" % (name, first_name), True, ev is first)

    def compare_final(self, r):
        sim = self.sim
        self._chk("C01", "final_iteration", r["t"] + self.k, sim.iteration)
        self._chk("C01", "queue_empty", True, sim.event_queue.empty())
        self._chk("C01", "all_vacant", r["occ"], self.impl_occ())
        # event history: same multiset per (ts, precedence) class, and key order non-decreasing
        ih = self.impl_evhist()
        prec = {"Unplug": 0, "Plugin": 10, "Recompute": 20}
        keys = [(ts, prec[k]) for k, ts, _ in ih]
        self._chk("C01", "event_history_order", "non-decreasing (time, precedence)", keys, keys == sorted(keys))
        sh = [(e["kind"], e["ts"], e["id"]) for e in r["evHist"]]
        self._chk("C01", "event_history", sorted(sh), sorted(ih))
        self._chk("C01", "ev_history", sorted(vid(i) for i in r["seen"]), sorted(sim.ev_history))
        self.compare_pilots(r["pilots"], "pilot_signals")
        # the labelled views: one column per station id, one row per period
        pdf, rdf = sim.pilot_signals_as_df(), sim.charging_rates_as_df()
        for s in range(1, self.ns + 1):
            j = self.row(s)
            self._chk("C04", "pilot_signals_as_df[%s]" % sid(s), [float(x) for x in sim.pilot_signals[j]],
                      [float(x) for x in pdf[sid(s)].tolist()])
            self._chk("C02", "charging_rates_as_df[%s]" % sid(s), [float(x) for x in sim.charging_rates[j]],
                      [float(x) for x in rdf[sid(s)].tolist()])
            self._chk("C04", "index_of_evse[%s]" % sid(s), j, sim.index_of_evse(sid(s)))
        if self.compare_energy:
            w = sim.charging_rates.shape[1]
            for s in range(1, self.ns + 1):
                j = self.row(s)
                for k0, e in enumerate(r["dE"][s - 1]):
                    k = k0 + self.k
                    e_impl = float(sim.charging_rates[j, k]) * self.volt[s - 1] * self.T if k < w else 0.0
                    self._chk("C02", "charging_rates[%s,%d]*V*T(final)" % (sid(s), k0), e, e_impl, close(e_impl, e))
            for i in self.evs:
                ev = self.live_ev(i)
                self._chk("C02", "final energy_delivered[%d]" % i, r["evE"][i - 1], ev.energy_delivered * KWH,
                          close(ev.energy_delivered * KWH, r["evE"][i - 1]))
            self._chk("C02", "final peak", self.peak_spec(r["peakN"]), sim.peak,
                      close(sim.peak, self.peak_spec(r["peakN"])))
            tot = acnsim.analysis.total_energy_delivered(sim) if False else sum(
                e.energy_delivered for e in sim.ev_history.values())
            integ = float(np.sum(acnsim.aggregate_power(sim)) * self.T / 60.0)
            self._chk("C02", "total energy == integral of aggregate power", tot, integ, close(tot, integ, abs_=1e-9))
        if sim.schedule_history is not None and self.var.store_hist:
            self._chk("C09", "schedule_history.keys", sorted(x[0] + self.k for x in r["schedHist"]),
                      sorted(x for x in sim.schedule_history if x >= self.k))


def _deep_close(a, b):
    if isinstance(a, (int, float)) and isinstance(b, (int, float)) and not isinstance(a, bool):
        return close(a, b, rel=1e-12, abs_=1e-12)
    if isinstance(a, (list, tuple)) and isinstance(b, (list, tuple)):
        return len(a) == len(b) and all(_deep_close(x, y) for x, y in zip(a, b))
    if isinstance(a, dict) and isinstance(b, dict):
        return a.keys() == b.keys() and all(_deep_close(a[k], b[k]) for k in a)
    return a == b


def twin_of(bhv):
    """The interruption-free behaviour with the same scheduler answers (a behaviour of the
    spec by CrashTransparent): drop raise/resume/dumpload, and reject together with the bad
    `sched` that caused it."""
    out = []
    i = 0
    while i < len(bhv):
        r = bhv[i]
        if r["a"] in ("raise", "resume", "dumpload"):
            i += 1
            continue
        if r["a"] == "sched" and i + 1 < len(bhv) and bhv[i + 1]["a"] == "reject":
            i += 2
            continue
        out.append(r)
        i += 1
    return out


def replay(bhv, var=None, **kw):
    """Returns None if the implementation followed the behaviour, else a Divergence."""
    try:
        Replay(bhv, var, **kw).run()
        return None
    except Divergence as d:
        return d


def final_outputs(bhv, var=None):
    """Run a behaviour and return the per-station outputs (for impl-vs-impl comparisons)."""
    rp = Replay(bhv, var, compare_spec_energy=False)
    rp.run()
    sim = rp.sim
    out = {}
    for s in range(1, rp.ns + 1):
        j = rp.row(s)
        out[sid(s)] = (sim.pilot_signals[j].tolist(), sim.charging_rates[j].tolist())
    en = {i: rp.live_ev(i).energy_delivered for i in rp.evs}
    return {"stations": out, "energy": en, "t": int(sim.iteration), "peak": float(sim.peak),
            "evhist": rp.impl_evhist()}


# =============================================================================================
# step(): the second entry point (spec/AcnSimStep.tla)
class StepReplay(Replay):
    """Executes a behaviour of AcnSimStep.tla: each `step` record is one call of Simulator.step with the
    spec's schedule; the periods applied inside the call are compared by Replay.on_post_charging
    (records `update` / `apply`), the outcome of the call with the `ret` / `typeerror` / `occupied`
    record that follows."""

    def _build(self):
        super()._build()
        mr = self.start["mr"]
        # step() needs no scheduler; with one, the simulator copies its max_recompute
        sched = None
        if mr:
            sched = BaseAlgorithm()
            sched.max_recompute = mr
        self.sim = Simulator(self.net, sched, self.sim.event_queue, self.start_dt, period=self.T, verbose=self.var.verbose,
                             store_schedule_history=self.var.store_hist)

    def run(self):
        import contextlib
        import io
        with warnings.catch_warnings(), contextlib.redirect_stdout(io.StringIO()):
            warnings.simplefilter("ignore")
            self._prepare_expected()
            return self._run_steps()

    def _run_steps(self):
        from acnportal.acnsim.models import StationOccupiedError
        while self.cur < len(self.bhv):
            r = self._consume()
            if r["a"] != "step":
                raise Divergence("C01", "script", "step", r["a"], self.cur - 1)
            sched = self.realise(self.menu[r["m"]])
            try:
                done = self.sim.step(sched)
                outcome = "ret"
            except TypeError as e:
                outcome, done = "typeerror", "%s: %s" % (type(e).__name__, e)
            except StationOccupiedError as e:
                outcome, done = "occupied", "%s: %s" % (type(e).__name__, e)
            except Divergence:
                raise
            except Exception as e:  # noqa
                raise Divergence("C01", "step:exception", "no exception", "%s: %s" % (type(e).__name__, e), self.cur - 1)
            nxt = self._next("ret", "typeerror", "occupied")
            if nxt is None:
                raise Divergence("C01", "step:periods", "next spec action %s" % self._peek_kind(),
                                 "step() returned (%s) at iteration %d" % (outcome, self.sim.iteration), self.cur)
            self._consume()
            self._chk("C01", "step:outcome", nxt["a"], outcome if outcome == nxt["a"] else "%s (%s)" % (outcome, done))
            self._chk("C01", "step:iteration", nxt["t"], self.sim.iteration)
            if outcome != "ret":
                continue
            self._chk("C01", "step:return value (queue empty)", bool(nxt["done"]), bool(done))
            self._chk("C01", "step:occ", nxt["occ"], self.impl_occ())
            self._chk("C01", "step:events_processed", nxt["nev"], len(self.sim.event_history))
            self._chk("C01", "step:queue_len", nxt["qlen"], len(self.sim.event_queue))
            self._chk("C05", "step:_resolve", bool(nxt["resolve"]), bool(self.sim._resolve))
            self.compare_pilots(nxt["pilots"], "pilots@step-return")
            sim = self.sim
            w = sim.charging_rates.shape[1]
            for s in range(1, self.ns + 1):
                j = self.row(s)
                for k0, e in enumerate(nxt["dE"][s - 1]):
                    e_impl = float(sim.charging_rates[j, k0]) * self.volt[s - 1] * self.T if k0 < w else 0.0
                    self._chk("C02", "charging_rates[%s,%d]*V*T@step-return" % (sid(s), k0), e, e_impl, close(e_impl, e))
            for i in self.evs:
                ev = self.live_ev(i)
                self._chk("C02", "energy_delivered[%d]@step-return" % i, nxt["evE"][i - 1], ev.energy_delivered * KWH,
                          close(ev.energy_delivered * KWH, nxt["evE"][i - 1]))
            self._chk("C02", "peak@step-return", self.peak_spec(nxt["peakN"]), sim.peak,
                      close(sim.peak, self.peak_spec(nxt["peakN"])))
            if sim.schedule_history is not None and self.var.store_hist:
                self._chk("C04", "schedule_history.keys@step-return", sorted(x[0] for x in nxt["schedHist"]),
                          sorted(sim.schedule_history))
        return None


def replay_step(bhv, var=None):
    try:
        StepReplay(bhv, var).run()
        return None
    except Divergence as d:
        return d
