"""C12: Currents.tla behaviours replayed through the real ChargingNetwork / Current classes.

Every behaviour TLC emits (all call sequences of a small configuration, plus sampled longer ones)
is a list of calls with the spec's post-state after each.  `replay_case` performs the calls on a
real ChargingNetwork, builds every Current with the real operators (node by node, comparing each
node's value with the value the spec assigns to it), and compares station_ids, constraints_as_df(),
constraint_matrix, magnitudes, constraint_index and constraint_current(...) with the spec record
after every call.
"""
import json
import math
import warnings
from concurrent.futures import ProcessPoolExecutor, ThreadPoolExecutor

from .common import Report, jhash
from .tlc import run_tlc, require_ok

U = 8.0  # spec coefficient unit: 1/8
MC_ACTIONS = ["DoRegister", "DoAdd", "DoRemove", "DoUpdate", "DoUpdateUnknown", "DoQuery", "RoundTrip", "Finish"]


def close(x, n, tol=1e-9):
    try:
        x = complex(x)
    except (TypeError, ValueError):
        return False
    if math.isnan(x.real) or math.isnan(x.imag):
        return False
    return abs(x - n) <= tol * max(1.0, abs(n))


# ------------------------------------------------------------------ the Current algebra
def _scalar(k):
    return k["n"] if k["d"] == 1 else k["n"] / k["d"]


def _num(c8):
    """Coefficient c8/8 as the user would write it: an int where it is one, a float otherwise."""
    return c8 // 8 if c8 % 8 == 0 else c8 / U


def _spec_current(pairs):
    from acnportal.acnsim.network import Current
    return Current({s: c / U for s, c in pairs})


def _value_mismatch(obj, pairs):
    """None if obj (a pandas Series) denotes the coefficients `pairs` (0 where absent); else a description."""
    import pandas as pd
    if obj is None:
        return "returns-None"
    if not isinstance(obj, pd.Series):
        return "returns-" + type(obj).__name__
    if not obj.index.is_unique:
        return "duplicate-index"
    spec = {s: c / U for s, c in pairs}
    for s in set(spec) | set(obj.index):
        x = obj[s] if s in obj.index else 0.0
        try:
            if math.isnan(float(x)):
                return "NaN-coefficient"
        except (TypeError, ValueError):
            return "non-numeric-coefficient"
        if not close(x, spec.get(s, 0.0)):
            return "wrong-coefficient"
    return None


def build_current(e, vals, out):
    """Build expression tree e bottom-up with the real operators.  Every node's value is compared with the
    spec's (vals mirrors e).  A node that is wrong is recorded in `out` and replaced by the spec's value, so
    that the rest of the behaviour still exercises the network."""
    from acnportal.acnsim.network import Current
    t = e["t"]
    try:
        if t == "none":
            r = Current()
        elif t == "str":
            r = Current(e["s"])
        elif t == "list":
            r = Current(list(e["l"]))
        elif t == "dict":
            r = Current({s: _num(c) for s, c in e["d"]})
        elif t in ("add", "sub"):
            a = build_current(e["a"], vals["a"], out)
            b = build_current(e["b"], vals["b"], out)
            r = a + b if t == "add" else a - b
        elif t == "lmul":
            r = _scalar(e["k"]) * build_current(e["a"], vals["a"], out)
        elif t == "rmul":
            r = build_current(e["a"], vals["a"], out) * _scalar(e["k"])
        else:  # pragma: no cover
            raise ValueError("unknown node %r" % t)
        bad = _value_mismatch(r, vals["v"])
    except Exception as ex:  # noqa
        r, bad = None, "raises-" + type(ex).__name__
    if bad is not None:
        shape = t if t not in ("add", "sub") else "%s(%s,%s)" % (t, _kind(e["a"]), _kind(e["b"]))
        # one class for every sum / difference that goes wrong with a scalar multiple as an operand
        key = "algebra:scalar-multiple-operand" if "scalar-multiple" in shape else "algebra:%s:%s" % (t, bad)
        out.append({"field": "algebra", "key": key, "shape": shape, "failure": bad, "expr": e,
                    "spec": sorted(vals["v"]), "impl": _show(r)})
        r = _spec_current(vals["v"])
    return r


def _kind(e):
    return {"lmul": "scalar-multiple", "rmul": "scalar-multiple", "add": "sum", "sub": "difference"}.get(e["t"], "current")


def _show(r):
    try:
        return None if r is None else {str(k): float(v) for k, v in dict(r).items()}
    except Exception:  # noqa
        return repr(r)


# ------------------------------------------------------------------ the network
def _project_mismatch(net, post):
    """Compare the network with the spec's post state; None or (field, spec, impl)."""
    import numpy as np
    if list(net.station_ids) != post["stations"]:
        return "stations", post["stations"], list(net.station_ids)
    if not post["locked"]:
        if net.constraint_matrix is not None:
            return "matrix", None, np.asarray(net.constraint_matrix).tolist()
        if len(net.magnitudes) or len(net.constraint_index):
            return "limits", [], [list(net.magnitudes), list(net.constraint_index)]
        return None
    names, nst = post["names"], len(post["stations"])
    if list(net.constraint_index) != names:
        return "names", names, list(net.constraint_index)
    mags = np.asarray(net.magnitudes)
    if mags.shape != (len(names),) or not all(close(mags[i], post["mags"][i]) for i in range(len(names))):
        return "limits", post["mags"], mags.tolist()
    m = net.constraint_matrix
    if m is None or np.asarray(m).shape != (len(names), nst):
        return "matrix", [len(names), nst], None if m is None else list(np.asarray(m).shape)
    spec_m = [[c / U for c in row] for row in post["matrix"]]
    for i in range(len(names)):
        for j in range(nst):
            if not close(m[i][j], spec_m[i][j]):
                return "matrix", spec_m, _tolist(m)
    df = net.constraints_as_df()
    if list(df.index) != names or list(df.columns) != post["stations"]:
        return "constraints_as_df", [names, post["stations"]], [list(df.index), list(df.columns)]
    dfv = df.to_numpy()
    for i in range(len(names)):
        for j in range(nst):
            if not close(dfv[i][j], spec_m[i][j]):
                return "constraints_as_df", spec_m, _tolist(dfv)
    return None


def _tolist(a):
    try:
        return [[float(x) for x in row] for row in a]
    except Exception:  # noqa
        return repr(a)


_FAST = []


def _memoise_version_lookup():
    """to_json()/from_json() call pkg_resources.require("acnportal") each time (6 ms of environment scanning that
    always gives the same answer); memoised in the harness process only, so a JSON round trip costs ~1 ms."""
    if _FAST:
        return
    import functools
    import pkg_resources
    pkg_resources.require = functools.lru_cache(maxsize=None)(pkg_resources.require)
    _FAST.append(True)


def _replay(b, first_only=False):
    """All mismatches of one behaviour (algebra mismatches are repaired and the behaviour continues; a
    network mismatch ends it)."""
    import numpy as np
    from acnportal.acnsim.network import ChargingNetwork
    from acnportal.acnsim.models import EVSE
    _memoise_version_lookup()
    out = []
    with warnings.catch_warnings():
        warnings.simplefilter("ignore")
        net = ChargingNetwork()
        for n, step in enumerate(b["ops"]):
            op, res, found = step["op"], "ok", len(out)
            try:
                if op == "init":
                    for s in step["post"]["stations"]:
                        net.register_evse(EVSE(s), 240, 0)
                elif op == "register":
                    try:
                        net.register_evse(EVSE(step["s"]), 240, 0)
                    except Exception:  # noqa  a rejection is "an exception and no state change"
                        res = "refused"
                elif op == "add":
                    cur = build_current(step["e"], step["vals"], out)
                    try:
                        net.add_constraint(cur, step["limit"], step["name"] or None)
                    except KeyError:
                        res = "refused"
                elif op == "remove":
                    try:
                        net.remove_constraint(step["name"])
                    except KeyError:
                        res = "refused"
                elif op == "update":
                    cur = build_current(step["e"], step["vals"], out)
                    try:
                        net.update_constraint(step["name"], cur, step["limit"], step["newname"] or None)
                    except KeyError:
                        res = "refused"
                elif op == "update_unknown":
                    cur = build_current(step["e"], step["vals"], out)
                    try:
                        net.update_constraint(step["name"], cur, step["limit"], step["newname"] or None)
                    except KeyError:
                        res = "refused"
                    # the old constraint is gone (as the code does) or still there (a rollback): either way the network
                    # is aligned and usable
                    d1, d2 = _project_mismatch(net, step["post"]), _project_mismatch(net, step["alt"])
                    if res == "refused" and d1 is not None and d2 is not None:
                        out.append({"field": d1[0], "key": "update_unknown:%s" % d1[0], "step": n, "op": _brief(step),
                                    "spec": [d1[1], "or", d2[1]], "impl": d1[2]})
                        break
                    if res == "refused" and net.constraint_matrix is not None:
                        sched = np.array([b["sched"][s] for s in net.station_ids], dtype=float)
                        got = np.asarray(net.constraint_current(sched))
                        if got.shape[0] != len(net.constraint_index) or len(net.magnitudes) != len(net.constraint_index):
                            out.append({"field": "alignment", "key": "update_unknown:alignment", "step": n, "op": _brief(step),
                                        "spec": "rows = limits = names", "impl": [list(got.shape), len(net.magnitudes),
                                                                                 len(net.constraint_index)]})
                            break
                    if res == "refused":
                        continue
                elif op == "roundtrip":
                    net = ChargingNetwork.from_json(net.to_json())
                elif op == "query":
                    sched = np.array([b["sched"][s] for s in step["post"]["stations"]], dtype=float)
                    asked = None if step["all"] else sorted(step["asked"], reverse=True)   # order is irrelevant
                    got = net.constraint_current(sched, constraints=asked, time_indices=step["times"] or None)
                    spec = [[c / U for c in row] for row in step["res"]]
                    ncols = len(step["times"]) or b["nt"]
                    got = np.asarray(got)
                    ok = got.shape == (len(spec), ncols) and all(
                        close(got[i][j], spec[i][j]) for i in range(len(spec)) for j in range(ncols))
                    if not ok:
                        out.append({"field": "result", "key": "query:result", "step": n, "op": _brief(step),
                                    "spec": spec, "impl": np.asarray(got).astype(complex).real.tolist()
                                    if got.dtype != object else repr(got)})
                        break
                    # the same selection of rows and columns with the documented option linear=True: entry (i, k) is
                    # |sum_s |coef_i[s]| * x[s, k]| for the requested constraints (network order) and periods
                    post = step["post"]
                    if post["locked"]:
                        rows = [i for i, nm in enumerate(post["names"]) if step["all"] or nm in step["asked"]]
                        cols = step["times"] or list(range(b["nt"]))
                        lin = [[abs(sum(abs(post["matrix"][i][j] / U) * sched[j][k] for j in range(len(post["stations"]))))
                                for k in cols] for i in rows]
                        gl = np.asarray(net.constraint_current(sched, constraints=asked, time_indices=step["times"] or None,
                                                               linear=True))
                        if not (gl.shape == (len(rows), len(cols)) and all(
                                close(gl[i][k], lin[i][k]) for i in range(len(rows)) for k in range(len(cols)))):
                            out.append({"field": "result(linear)", "key": "query:result-linear", "step": n, "op": _brief(step),
                                        "spec": lin, "impl": gl.tolist() if gl.dtype != object else repr(gl)})
                            break
                else:  # pragma: no cover
                    raise ValueError("unknown op %r" % op)
            except Exception as ex:  # noqa  an exception the spec does not foresee
                out.append({"field": "exception", "key": "%s:raises" % op, "step": n, "op": _brief(step),
                            "spec": step["res"] if isinstance(step["res"], str) else "ok",
                            "impl": "%s: %s" % (type(ex).__name__, str(ex)[:200])})
                break
            if first_only and len(out) > found:
                break
            if op != "query" and res != step["res"]:
                out.append({"field": "outcome", "key": "%s:outcome" % op, "step": n, "op": _brief(step),
                            "spec": step["res"], "impl": res})
                break
            try:
                d = _project_mismatch(net, step["post"])
            except Exception as ex:  # noqa
                d = ("projection", "a consistent network", "%s: %s" % (type(ex).__name__, str(ex)[:200]))
            if d is not None:
                out.append({"field": d[0], "key": "%s:%s" % (op, d[0]), "step": n, "op": _brief(step),
                            "spec": d[1], "impl": d[2]})
                break
    return out


def _brief(step):
    return {k: v for k, v in step.items() if k not in ("post", "vals")}


def replay_case(b):
    """Execute one emitted behaviour through the real code; None or the first mismatch."""
    out = _replay(b, first_only=True)
    return out[0] if out else None


def _work(b):
    return _replay(b)


def nontrivial(b):
    ops = b["ops"]
    edits = [s for s in ops if s["op"] in ("add", "update") and s["res"] == "ok"]
    return len(edits) >= 2 and any(s["op"] in ("remove", "update") and s["res"] == "ok" for s in ops)


# ------------------------------------------------------------------ the check
def check_C12(tier, seed):
    rep = Report("C12", tier, seed)
    thorough = tier == "thorough"
    rep.rule = ("call sequences (register / add / remove / update / query / JSON round trip) enumerated or sampled by "
                "TLC, distinct by content; non-trivial = at least two successful add/update calls and a successful "
                "remove or update")
    rep.assumptions += [
        "all stations have phase angle 0 (aggregate current of a row = weighted sum); phasor geometry is C06",
        "coefficients and scalars are dyadic rationals (multiples of 1/8), so the implementation's float arithmetic is exact; "
        "compared with relative tolerance 1e-9",
        "time_indices are ascending lists or None; constraint name lists are passed in reverse-sorted order (the result "
        "must be in network order)",
        "register_evse is modelled as refused once a constraint has ever been added (docstring); "
        "update_constraint is only called with currents over registered stations",
        "values of Currents are compared (0 if absent), not their Python type or index order",
    ]
    rep.bounds = {"stations": 4, "expression depth": 2, "periods": 3,
                  "mc_wide": "14-expression core menu, MaxOps=%d, MaxCons=3" % (3 if thorough else 2),
                  "mc_deep": "4-expression menu, MaxCons=3, %s" % ("MaxOps=6 (one limit) and MaxOps=5 (two limits)" if thorough else "MaxOps=4"),
                  "gen_exhaustive": "core menu, MaxOps=2", "simulate": "MaxOps=9, MaxCons=4, 400 random menus of 8 trees"}
    invs = "Shape, RowsAligned, LimitsAligned, NamesAligned, QueryRows, RegisterRefusedAfterConstraint, " \
           "RefusedChangesNothing, UpdateIsRemoveAppend"
    mc = run_tlc("MC_Currents", "Currents_mc", workers=4, coverage=True, timeout=1500,
                 overrides={"MaxOps": "= 3"} if thorough else {"MaxOps": "= 2"})
    rep.add_tlc(mc, "exhaustive model checking, every expression shape x every short call sequence: " + invs,
                "Currents_mc", require_actions=MC_ACTIONS)
    require_ok(mc, "Currents model checking (wide)")
    for ov in ([{"MaxOps": "= 6", "Limits": "<- LimitsOne"}, {"MaxOps": "= 5"}] if thorough else [{}]):
        deep = run_tlc("MC_Currents", "Currents_mc_deep", workers=4, coverage=True, timeout=1500, overrides=ov)
        rep.add_tlc(deep, "exhaustive model checking, long call sequences over a tiny menu %s: %s" % (ov or "", invs),
                    "Currents_mc_deep", require_actions=MC_ACTIONS)
        require_ok(deep, "Currents model checking (deep)")

    gen = run_tlc("MC_Currents", "Currents_gen", workers=1, timeout=3000,
                  overrides={"Limits": "<- LimitsTwo", "InitStations": "<- InitMC", "NewNames": "<- NamesNew"}
                  if thorough else {})
    require_ok(gen, "Currents generation")
    rep.add_tlc(gen, "exhaustive behaviour generation", "Currents_gen")
    cases = gen.emitted.get("BHV", [])
    n_ex = len(cases)
    nsim, per = (4, 5000) if thorough else (1, 1000)

    def one_sim(j):   # TLC's -simulate num is per worker: several single-worker processes, one seed each
        return run_tlc("MC_CurrentsSim", "Currents_sim", workers=1, simulate=per, depth=12, seed=seed * 100 + j,
                       timeout=3000)

    with ThreadPoolExecutor(max_workers=nsim) as tp:
        sim_runs = list(tp.map(one_sim, range(nsim)))
    sims = []
    for sim in sim_runs:
        require_ok(sim, "Currents simulation")
        rep.add_tlc(sim, "sampled longer call sequences over random expression menus (-simulate), invariants checked",
                    "Currents_sim")
        sims += sim.emitted.get("BHV", [])
    seen, todo = set(), []
    for b in cases + sims:
        k = jhash(b)
        if k not in seen:
            seen.add(k)
            todo.append((k, b))
    if thorough:
        with ProcessPoolExecutor(max_workers=4) as ex:
            results = list(ex.map(_work, [b for _, b in todo], chunksize=200))
    else:
        results = [_replay(b) for _, b in todo]
    for (k, b), out in zip(todo, results):
        rep.replayed += 1
        rep.count(k, nontrivial(b))
        for d in out:
            if d["key"].startswith("roundtrip"):
                # serialisation is not part of C12's statement: a network that does not survive a JSON
                # round trip is C09's business (its check replays round trips on such networks too)
                rep.foreign_divergence("C09")
                continue
            rep.violation("C12:" + d["key"], json.dumps({x: d[x] for x in d if x != "key"}, default=repr)[:600],
                          {"kind": "case", "module": "props_currents", "case": b, "mismatch": d})
    rep.exhaustive = True
    rep.notes.append("all %d call sequences of the exhaustive configuration replayed, plus %d sampled longer ones"
                     % (n_ex, len(todo) - n_ex))
    if cases:
        rep.sample(cases[len(cases) // 3])
    if sims:
        rep.sample(sims[0])
    return rep.finish()
