"""C15: EventGen.tla cases executed through the real session generators and the real capacity fit.

spec -> code: every case TLC evaluates (document under a get_evs configuration, row of a sample
matrix, (energy, stay) request of the capacity fit) is run through acnportal
(acndata.utils.parse_dates -> acndata_events._convert_to_ev / generate_events,
StochasticEvents._convert_ev_matrix / generate_events, batt_cap_fn + Linear2StageBattery) and
compared with the specification's answer.
code -> spec: the (cap, init) pairs the real batt_cap_fn returned are handed back to TLC, which
judges them against the enclosure of the documented two-stage law (family "obs").
"""
import contextlib
import io
import json
import math
import warnings
from datetime import datetime, timedelta
from fractions import Fraction

from .common import Report, jhash
from .tlc import run_tlc, require_ok, TlcFailure

S = 1 << 28          # fixed point one of the specification
KWH = 60000.0        # W*min per kWh (documents, fit)
ROW_KWH = 600000.0   # W*dm per kWh (rows)
EPOCH = datetime(1970, 1, 1)
FIT_TOL = 1e-6       # "delivers the request": relative


class LatticeError(Exception):
    """A constant of the specification's lattice disagrees with the environment (machinery, not property)."""


def close(x, y, tol=1e-9):
    return abs(float(x) - float(y)) <= tol * max(1.0, abs(float(y)))


def rel_close(x, y, tol):
    return abs(float(x) - float(y)) <= tol * abs(float(y))


# ------------------------------------------------------------------ battery parameter dictionaries
class ProbeFn:
    """capacity_fn of the "probe" dictionaries: same function as EventGen!Probe, in kWh; records its calls."""

    def __init__(self):
        self.calls = []

    def __call__(self, energy, stay, voltage, period):
        self.calls.append((energy, stay, voltage, period))
        extra = (600 * stay + 7 * voltage + 1300 * period + 60000) / KWH
        return energy + extra, (600 * stay + 1300 * period) / KWH


def battery_params(bp):
    """-> (battery_params argument, probe or None)"""
    from acnportal.acnsim.models import Battery, Linear2StageBattery, batt_cap_fn
    if bp == "none":
        return None, None
    if bp == "plain":
        return {"type": Battery}, None
    if bp == "probe":
        p = ProbeFn()
        return {"type": Battery, "capacity_fn": p}, p
    if bp == "probe2":
        p = ProbeFn()
        return {"type": Linear2StageBattery, "capacity_fn": p, "kwargs": {"transition_soc": 0.6}}, p
    if bp == "fit":
        return {"type": Linear2StageBattery, "capacity_fn": batt_cap_fn}, None
    raise LatticeError("unknown battery parameter dictionary %r" % bp)


def full_rate_delivery(batt, voltage, period, stay):
    """Charge a real battery at 32 A for `stay` periods; energy taken (kWh)."""
    start = batt._current_charge
    with warnings.catch_warnings():
        warnings.simplefilter("ignore")
        for _ in range(int(stay)):
            batt.charge(32, voltage, period)
    return batt._current_charge - start


def compare_session(ev, cfg, out, unit, call, fam):
    """Compare one generated EV with the specification's session record. unit = spec energy units per kWh."""
    from acnportal.acnsim.models import Battery, Linear2StageBattery
    for name, got, want in (("arrival", ev.arrival, out["arr"]), ("departure", ev.departure, out["dep"])):
        if isinstance(got, bool) or int(got) != got or int(got) != want:
            return {"field": name, "spec": want, "impl": repr(got)}
    req = out["req"] / unit
    if not close(ev.requested_energy, req):
        return {"field": "requested_energy", "spec": req, "impl": float(ev.requested_energy)}
    sb = out["batt"]
    b = ev._battery
    want_type = Battery if sb["type"] == "Battery" else Linear2StageBattery
    if type(b) is not want_type:
        return {"field": "battery.type", "spec": sb["type"], "impl": type(b).__name__}
    if not close(ev.maximum_charging_power, sb["pw"] / 1000.0):
        return {"field": "battery.max_power", "spec": sb["pw"] / 1000.0, "impl": float(ev.maximum_charging_power)}
    if cfg["bp"] in ("probe", "probe2"):
        if call is None:
            return {"field": "capacity_fn-not-called", "spec": "called once per session", "impl": "no call"}
        e, stay, v, p = call
        if not close(stay, out["stay"]):
            return {"field": "capacity_fn-stay-arg", "spec": out["stay"], "impl": float(stay),
                    "note": "length of the session in periods (departure - arrival)"}
        if not (close(e, req) and v == cfg["V"] and p == cfg["P"]):
            return {"field": "capacity_fn-args", "spec": [req, out["stay"], cfg["V"], cfg["P"]],
                    "impl": [float(e), float(stay), v, p]}
    if cfg["bp"] != "fit":
        for name, got, want in (("battery.capacity", b._capacity, sb["cap"] / unit),
                                ("battery.init_charge", b._init_charge, sb["init"] / unit),
                                ("battery.current_charge", b._current_charge, sb["init"] / unit)):
            if not close(got, want):
                return {"field": name, "spec": want, "impl": float(got)}
        if cfg["bp"] == "probe2" and not close(b._transition_soc, sb["tsoc"] / 100.0):
            return {"field": "battery.kwargs", "spec": sb["tsoc"] / 100.0, "impl": b._transition_soc}
    # the property itself, on the real object: free capacity covers the request (for the fit up to its
    # documented search tolerance of 1e-9 SoC: with a long stay the exact answer leaves free = request * (1 + tiny))
    slack = 2e-9 * b._capacity if cfg["bp"] == "fit" else 0.0
    if not (b._capacity - b._current_charge >= req * (1 - 1e-9) - 1e-12 - slack):
        return {"field": "battery-does-not-cover-request", "spec": ">= %r kWh free" % req,
                "impl": "capacity %r, charge %r" % (float(b._capacity), float(b._current_charge))}
    if cfg["bp"] == "fit" and sb["fit"]["verdict"] == "feasible" and cfg["pw"] == 32 * cfg["V"]:
        got = full_rate_delivery(b, cfg["V"], cfg["P"], out["stay"])
        if not rel_close(got, req, FIT_TOL):
            return {"field": "fit-delivery", "spec": req, "impl": float(got),
                    "note": "two-stage battery of the generated session charged at 32 A for its %d periods; "
                            "cap %r init %r" % (out["stay"], float(b._capacity), float(b._init_charge))}
    return None


# ------------------------------------------------------------------ documents
def http_date(epoch):
    return (EPOCH + timedelta(seconds=epoch)).strftime("%a, %d %b %Y %H:%M:%S GMT")


def aware(epoch, zone, wall, off):
    """The datetime the ACN-Data client yields for this instant in this zone (real parse_dates)."""
    from acnportal.acndata.utils import parse_dates
    d = {"timezone": zone, "t": http_date(epoch)}
    parse_dates(d)
    dt = d["t"]
    if dt.utcoffset().total_seconds() != off or (dt.replace(tzinfo=None) - EPOCH).total_seconds() != wall:
        raise LatticeError("zone table of MC_EventGen disagrees with pytz: %s at %d: %s vs wall %d off %d"
                           % (zone, epoch, dt.isoformat(), wall, off))
    return dt


def user_inputs(inp, sid):
    """Unclaimed sessions carry userInputs = None; claimed ones a list of what the driver typed into the app (the requested
    energy, miles and departure are the driver's wishes: the session's energy is what was DELIVERED, kWhDelivered)."""
    if (inp["conn"] + inp["kwh"]) % 3 == 0:
        return None
    return [{"userID": 7, "milesRequested": 60, "WhPerMile": 400, "minutesAvailable": 300, "kWhRequested": 24.0,
             "modifiedAt": http_date(inp["conn"] + 120), "paymentRequired": True,
             "requestedDeparture": http_date(inp["conn"] + 18000)}]


def make_doc(cfg, inp, out, sid):
    return {"_id": "id-" + sid, "sessionID": sid, "spaceID": "CA-" + sid, "stationID": "2-39-" + sid,
            "siteID": "0002", "clusterID": "0039", "timezone": cfg["zone"]["name"],
            "userID": None if user_inputs(inp, sid) is None else "000000007", "userInputs": user_inputs(inp, sid),
            "connectionTime": aware(inp["conn"], cfg["zone"]["name"], out["connWall"], out["connOff"]),
            "disconnectTime": aware(inp["disc"], cfg["zone"]["name"], out["discWall"], out["discOff"]),
            "doneChargingTime": None, "kWhDelivered": inp["kwh"] / KWH}


def doc_args(cfg):
    bp, probe = battery_params(cfg["bp"])
    max_len = None if cfg["maxlen"] < 0 else cfg["maxlen"]
    return cfg["P"], cfg["V"], cfg["pw"] / 1000.0, max_len, bp, cfg["ff"], probe


def replay_doc(cfg, inp, out):
    from acnportal.acnsim.events import acndata_events as ae
    start = aware(cfg["start"], cfg["szone"]["name"], out["startWall"], out["startOff"])
    doc = make_doc(cfg, inp, out, "s1")
    period, voltage, pw, max_len, bp, ff, probe = doc_args(cfg)
    offset = ae._datetime_to_timestamp(start, period)      # as get_evs does
    try:
        with warnings.catch_warnings():
            warnings.simplefilter("ignore")
            ev = ae._convert_to_ev(doc, offset, period, voltage, pw, max_len, bp, ff)
    except Exception as e:  # noqa
        if cfg["bp"] == "fit" and out["batt"].get("mustfit") and (cfg["ff"] or out["req"] == 0):
            # the request is exactly what force_feasible capped it to, and a menu battery holds it in its linear stage
            # (BoundaryFits in EventGen.tla): refusing the session is not an answer
            return {"field": "fit-refuses-force-feasible-request", "spec": "a session whose battery takes the capped request",
                    "impl": "%s: %s" % (type(e).__name__, e), "note": "request %r W*min = 32 A * %d V * %d periods * %d min"
                    % (out["req"], cfg["V"], out["stay"], cfg["P"])}
        if cfg["bp"] == "fit" and out["batt"]["fit"]["verdict"] != "feasible":
            return None     # no battery of the menu can take the request in the stay: refusing is the only answer
        return {"field": "exception", "spec": "a session", "impl": "%s: %s" % (type(e).__name__, e)}
    return compare_session(ev, cfg, out, KWH, probe.calls[0] if probe and probe.calls else None, "doc")


def replay_doc_group(cfg, cases):
    """All documents of one configuration through generate_events (DataClient replaced by the documents)."""
    from unittest import mock
    from acnportal.acnsim.events import acndata_events as ae
    from acnportal.acnsim.events import PluginEvent
    cases = [x for x in cases if cfg["bp"] != "fit" or x["out"]["batt"]["fit"]["verdict"] == "feasible"]
    if not cases:
        return None, 0
    out0 = cases[0]["out"]
    start = aware(cfg["start"], cfg["szone"]["name"], out0["startWall"], out0["startOff"])
    docs = [make_doc(cfg, x["inp"], x["out"], "s%d" % i) for i, x in enumerate(cases)]
    period, voltage, pw, max_len, bp, ff, probe = doc_args(cfg)
    seen = {}

    class FakeClient:
        def __init__(self, token, *a, **k):
            seen["token"] = token

        def get_sessions_by_time(self, site, start=None, end=None, *a, **k):
            seen["q"] = (site, start, end)
            return iter(docs)

    end = start + timedelta(days=3)
    kwargs = {}
    if max_len is not None:
        kwargs["max_len"] = max_len
    if bp is not None:
        kwargs["battery_params"] = bp
    if ff:
        kwargs["force_feasible"] = True
    try:
        with mock.patch.object(ae, "DataClient", FakeClient), warnings.catch_warnings():
            warnings.simplefilter("ignore")
            queue = ae.generate_events("tok", "caltech", start, end, period, voltage, pw, **kwargs)
    except Exception as e:  # noqa
        return {"field": "generate_events-exception", "spec": "%d sessions" % len(docs),
                "impl": "%s: %s" % (type(e).__name__, e), "case": cases[0]}, len(cases)
    if seen.get("q") != ("caltech", start, end) or seen.get("token") != "tok":
        return {"field": "generate_events-query", "spec": ["tok", "caltech", str(start), str(end)], "impl": repr(seen),
                "case": cases[0]}, len(cases)
    evs = {}
    for ts, event in queue.queue:
        if not isinstance(event, PluginEvent) or ts != event.ev.arrival or event.timestamp != ts:
            return {"field": "generate_events-event", "spec": "PluginEvent at the session's arrival",
                    "impl": "%s at %r for arrival %r" % (type(event).__name__, ts, event.ev.arrival), "case": cases[0]}, len(cases)
        evs[event.ev.session_id] = event.ev
    if len(evs) != len(docs) or len(queue.queue) != len(docs):
        return {"field": "generate_events-count", "spec": len(docs), "impl": len(queue.queue), "case": cases[0]}, len(cases)
    for i, x in enumerate(cases):
        ev = evs.get("s%d" % i)
        if ev is None or ev.station_id != "CA-s%d" % i:
            return {"field": "generate_events-ids", "spec": "s%d at CA-s%d" % (i, i), "impl": repr(ev), "case": x}, len(cases)
        call = probe.calls[i] if probe and len(probe.calls) == len(cases) else None
        d = compare_session(ev, cfg, x["out"], KWH, call, "doc")
        if d is not None:
            d["case"] = x
            d["via"] = "generate_events"
            return d, len(cases)
    return None, len(cases)


# ------------------------------------------------------------------ sample rows
def _dyadic(fr):
    d = fr.denominator
    return d & (d - 1) == 0


def row_decisive(cfg, inp, out):
    """Floats decide the floor unless the exact position is on a period boundary that the float
    computation (hours * (60 / period)) cannot represent exactly."""
    P = cfg["P"]
    if not _dyadic(Fraction(60, P)):
        return out["arrRem"] != 0 and out["depRem"] != 0
    ok_a = _dyadic(Fraction(inp["arr"], 600))
    ok_d = _dyadic(Fraction(out["dur"], 600)) and _dyadic(Fraction(inp["dur"], 600))
    if out["arrRem"] == 0 and not ok_a:
        return False
    if out["depRem"] == 0 and not (ok_a and ok_d):
        return False
    return True


def row_args(cfg):
    bp, probe = battery_params(cfg["bp"])
    max_len = None if cfg["maxlen"] < 0 else cfg["maxlen"]
    return cfg["P"], cfg["V"], cfg["pw"] / 1000.0, max_len, bp, cfg["ff"], probe


def int_matrix_if_whole(m):
    """A sample matrix whose entries are all whole numbers (a timetable in whole hours and whole kWh) is handed over
    with an integer dtype: the values are the same, so the sessions are."""
    import numpy as np
    if m.size and np.all(m == np.floor(m)):
        return m.astype(np.int64)
    return m


def replay_row(cfg, inp, out):
    import numpy as np
    from acnportal.acnsim.events.stochastic_events import StochasticEvents
    if not row_decisive(cfg, inp, out):
        return "non-decisive"
    period, voltage, pw, max_len, bp, ff, probe = row_args(cfg)
    m = int_matrix_if_whole(np.array([[inp["arr"] / 600.0 + 24 * inp["day"], inp["dur"] / 600.0, inp["e"] / ROW_KWH]]))
    try:
        with warnings.catch_warnings(), contextlib.redirect_stdout(io.StringIO()):
            warnings.simplefilter("ignore")
            evs = StochasticEvents._convert_ev_matrix(m, period, voltage, pw, max_len, bp, ff)
    except Exception as e:  # noqa
        return {"field": "exception", "spec": "a session", "impl": "%s: %s" % (type(e).__name__, e)}
    if len(evs) != 1:
        return {"field": "sessions-per-row", "spec": 1, "impl": len(evs)}
    return compare_session(evs[0], cfg, out, ROW_KWH, probe.calls[0] if probe and probe.calls else None, "row")


def replay_row_group(cfg, cases):
    """All rows of one configuration through StochasticEvents.generate_events with a fixed sampler."""
    import numpy as np
    from acnportal.acnsim.events.stochastic_events import StochasticEvents
    from acnportal.acnsim.events import PluginEvent
    cases = [x for x in cases if row_decisive(cfg, x["inp"], x["out"])]
    if not cases:
        return None, 0
    days = sorted({x["inp"]["day"] for x in cases})
    per_day = [[x for x in cases if x["inp"]["day"] == d] for d in range(days[-1] + 1)]
    order = [x for day in per_day for x in day]
    mats = [int_matrix_if_whole(np.array([[x["inp"]["arr"] / 600.0, x["inp"]["dur"] / 600.0, x["inp"]["e"] / ROW_KWH]
                                           for x in day])) for day in per_day if day]

    class Fixed(StochasticEvents):
        def sample(self, n_samples):
            m = mats.pop(0)
            if len(m) != n_samples:
                raise LatticeError("sample(%d) for a day of %d rows" % (n_samples, len(m)))
            return m

    period, voltage, pw, max_len, bp, ff, probe = row_args(cfg)
    try:
        with warnings.catch_warnings(), contextlib.redirect_stdout(io.StringIO()):
            warnings.simplefilter("ignore")
            queue = Fixed().generate_events([len(d) for d in per_day], period, voltage, pw, max_len, bp, ff)
    except LatticeError:
        raise
    except Exception as e:  # noqa
        return {"field": "generate_events-exception", "spec": "%d sessions" % len(order),
                "impl": "%s: %s" % (type(e).__name__, e), "case": order[0]}, len(order)
    evs = {}
    for ts, event in queue.queue:
        if not isinstance(event, PluginEvent) or ts != event.ev.arrival:
            return {"field": "generate_events-event", "spec": "PluginEvent at the session's arrival",
                    "impl": "%s at %r for arrival %r" % (type(event).__name__, ts, event.ev.arrival), "case": order[0]}, len(order)
        evs[event.ev.session_id] = event.ev
    if len(evs) != len(order):
        return {"field": "generate_events-count", "spec": len(order), "impl": len(evs), "case": order[0]}, len(order)
    for i, x in enumerate(order):
        ev = evs.get("session_%d" % i)
        if ev is None:
            return {"field": "generate_events-ids", "spec": "session_%d" % i, "impl": sorted(evs)[:5], "case": x}, len(order)
        call = probe.calls[i] if probe and len(probe.calls) == len(order) else None
        d = compare_session(ev, cfg, x["out"], ROW_KWH, call, "row")
        if d is not None:
            d["case"] = x
            d["via"] = "generate_events"
            return d, len(order)
    return None, len(order)


# ------------------------------------------------------------------ capacity fit
def call_fit(cfg, inp):
    from acnportal.acnsim.models import batt_cap_fn
    with warnings.catch_warnings():
        warnings.simplefilter("ignore")
        return batt_cap_fn(inp["req"] / KWH, inp["stay"], cfg["V"], cfg["P"])


def replay_fit(cfg, inp, out, obs=None):
    """obs: list collecting the observations (cap, init) for the code -> spec run."""
    from acnportal.acnsim.models import Linear2StageBattery
    V, P, n, req = cfg["V"], cfg["P"], inp["stay"], inp["req"] / KWH
    verdict = out["verdict"]
    if verdict == "feasible":
        # the law itself: a real battery started at the specification's witness must take what the enclosure says
        cap = out["cap"] / KWH
        b = Linear2StageBattery(cap, out["w"] / S * cap, 32 * V / 1000)
        got = full_rate_delivery(b, V, P, n) / cap * S
        if not (out["wlo"] - 2 - 1e-9 * S <= got <= out["whi"] + 2 + 1e-9 * S):
            return {"field": "battery-outside-law-enclosure", "spec": [out["wlo"], out["whi"]], "impl": got,
                    "note": "Linear2StageBattery(%r, %r) charged %d periods at 32 A, SoC gain in 2^-28" % (cap, out["w"] / S * cap, n)}
    try:
        cap, init = call_fit(cfg, inp)
    except Exception as e:  # noqa
        if verdict == "feasible":
            return {"field": "fit-refuses-feasible-request", "spec": "cap %r kWh can take it" % (out["cap"] / KWH),
                    "impl": "%s: %s" % (type(e).__name__, e)}
        return None
    if verdict in ("nondecisive", "degenerate"):
        return "non-decisive"
    cap, init = float(cap), float(init)
    try:
        b = Linear2StageBattery(cap, init, 32 * V / 1000)
    except Exception as e:  # noqa
        return {"field": "fit-result-not-a-battery", "spec": "0 <= init <= cap", "impl": "cap %r init %r: %s" % (cap, init, e)}
    if not (0 <= init and cap - init >= req * (1 - 1e-9) - 2e-9 * cap):     # 2e-9 cap: the fit's search tolerance
        return {"field": "battery-does-not-cover-request", "spec": ">= %r kWh free" % req, "impl": "cap %r init %r" % (cap, init)}
    got = full_rate_delivery(b, V, P, n)
    if obs is not None and cap * KWH == int(cap * KWH) and cap * KWH * 128 < 2 ** 31:
        lo = math.floor(Fraction(init) / Fraction(cap) * S)
        obs.append({"req": inp["req"], "stay": n, "V": V, "P": P, "cap": int(cap * KWH), "iLo": lo, "iHi": lo + 1})
    if not rel_close(got, req, FIT_TOL):
        return {"field": "fit-delivery", "spec": req, "impl": float(got),
                "note": "batt_cap_fn(%r, %d, %d, %d) = (%r, %r); Linear2StageBattery charged at 32 A for the stay takes %r kWh"
                        % (req, n, V, P, cap, init, float(got))}
    return None


def obs_module(obs):
    rows = ",\n    ".join("[req |-> %d, stay |-> %d, V |-> %d, P |-> %d, cap |-> %d, iLo |-> %d, iHi |-> %d]"
                         % (o["req"], o["stay"], o["V"], o["P"], o["cap"], o["iLo"], o["iHi"]) for o in obs)
    return ("---------------------------- MODULE EventGenObs ----------------------------\n"
            "ObsData == <<\n    %s >>\n"
            "=============================================================================\n" % rows)


# ------------------------------------------------------------------ single case (also used by --replay)
def replay_case(case):
    """Execute ONE emitted case through the real code; None or the first mismatch."""
    cfg, inp, out = case["cfg"], case["inp"], case["out"]
    kind = cfg["kind"]
    if kind == "doc":
        d = replay_doc(cfg, inp, out)
    elif kind == "row":
        d = replay_row(cfg, inp, out)
    elif kind == "fit":
        d = replay_fit(cfg, inp, out)
    elif kind == "group":      # recorded wiring failure: {"cfg", "cases"}
        fn = replay_doc_group if case["cfg"]["of"] == "doc" else replay_row_group
        g = dict(cfg)
        g["kind"] = g.pop("of")
        d, _ = fn(g, case["inp"])
    elif kind == "obs":        # re-made from the real fit of the current tree
        return replay_fit({"V": inp["V"], "P": inp["P"]}, {"req": inp["req"], "stay": inp["stay"]}, {"verdict": "obs"})
    else:
        raise LatticeError("unknown case kind %r" % kind)
    return None if d == "non-decisive" else d


def _key(kind, d):
    return "C15:%s:%s" % (kind, d["field"])


def _nontrivial(case):
    cfg, inp, out = case["cfg"], case["inp"], case["out"]
    if cfg["kind"] == "doc":
        return (out["dep"] != out["dep0"] or out["req"] != inp["kwh"] or cfg["start"] % (60 * cfg["P"]) != 0
                or inp["conn"] % (60 * cfg["P"]) != 0 or cfg["bp"] not in ("none", "plain"))
    if cfg["kind"] == "row":
        return out["dur"] != inp["dur"] or out["req"] != inp["e"] or out["arrRem"] != 0 or cfg["bp"] not in ("none", "plain")
    return True


GROUP_MAX = 60     # cases per configuration sent through generate_events together
TIERS = {
    "quick": {
        "mc": {},
        "gen": {},
        "sims": [("doc", 2000), ("row", 800), ("fit", 400)],
    },
    "thorough": {
        "mc": {"Periods": "<- PeriodsAll", "StartOffs": "<- OffsAll", "KSet": "<- KMid", "MaxLens": "<- MaxLensAll",
               "BPs": "<- BPsAll",
               "RowPeriods": "<- RowPeriodsAll", "RowK": "<- RowKAll", "RowKD": "<- RowKDAll", "RowMaxLens": "<- RowMaxLensAll",
               "RowPowers": "<- RowPowersAll",
               "FitVolts": "<- FitVoltsAll", "FitPeriods": "<- FitPeriodsAll", "FitStays": "<- FitStaysAll",
               "FitEnergies": "<- FitEnergiesAll", "FitFracs": "<- FitFracsAll"},
        "gen": {"Periods": "<- PeriodsAll", "KSet": "<- KMid", "MaxLens": "<- MaxLensAll", "BPs": "<- BPsAll",
                "RowPeriods": "<- RowPeriodsAll", "RowK": "<- RowKAll", "RowMaxLens": "<- RowMaxLensAll",
                "FitVolts": "<- FitVoltsAll", "FitPeriods": "<- FitPeriodsAll", "FitStays": "<- FitStaysAll",
                "FitEnergies": "<- FitEnergiesAll", "FitFracs": "<- FitFracsAll"},
        "sims": [("doc", 30000), ("doc", 30000), ("row", 6000), ("fit", 3000)],
    },
}
WIDE = {"Bases": "<- BasesAll", "StartOffs": "<- OffsAll", "Periods": "<- PeriodsAll", "Zones": "<- ZonesAll",
        "StartZones": "<- ZonesStart", "Volts": "<- VoltsAll", "Powers": "<- PowersAll", "MaxLens": "<- MaxLensAll",
        "BPs": "<- BPsAll", "KSet": "<- KAll", "Energies": "<- EnergiesAll",
        "RowPeriods": "<- RowPeriodsAll", "RowVolts": "<- VoltsAll", "RowPowers": "<- RowPowersAll",
        "RowMaxLens": "<- RowMaxLensAll", "RowDays": "<- RowDaysAll", "RowK": "<- RowKAll", "RowKD": "<- RowKDAll",
        "RowEnergies": "<- RowEnergiesAll",
        "FitVolts": "<- FitVoltsAll", "FitPeriods": "<- FitPeriodsAll", "FitStays": "<- FitStaysAll",
        "FitEnergies": "<- FitEnergiesAll", "FitFracs": "<- FitFracsAll"}


def check_C15(tier, seed):
    rep = Report("C15", tier, seed)
    T = TIERS[tier]
    rep.rule = ("cases = (configuration, input) pairs evaluated by TLC: document under a get_evs configuration, row of a "
                "sample matrix, (energy, stay) request of the capacity fit; distinct by content; non-trivial = a cap "
                "(max_len / force_feasible) is active, an instant is off a period boundary, the start is unaligned, or a "
                "capacity_fn is involved; every fit case is non-trivial")
    rep.assumptions += [
        "instants are whole seconds (ACN-Data's HTTP dates), 1970 < date < 2038, documents begin at or after the start; "
        "datetimes are timezone aware (built by the real acndata parse_dates) in America/Los_Angeles (across the 2019 DST "
        "switch), UTC, Asia/Kolkata (+05:30), Asia/Kathmandu (+05:45); the start may be in another zone and unaligned",
        "sample rows are valid (arrival >= 0, duration > 0, energy > 0); positions exactly on a period boundary are used "
        "only where hours * (60 / period) is exact in binary floating point, otherwise counted as non-decisive",
        "the stochastic converter's max_len is in hours (pinned by the repository's tests)",
        "the stay handed to capacity_fn is the session's stay in periods for both converters (batt_cap_fn documents periods)",
        "capacity fit: 32 A, transition SoC 0.8, menu 8/24/40/60/85/100 kWh as in batt_cap_fn; delivery compared at 1e-6 "
        "relative on the real Linear2StageBattery; feasibility only where the enclosure (about 1e-6 SoC wide) decides it; "
        "which feasible capacity / which init is returned is not constrained, only that it takes exactly the request",
        "exp is enclosed, not computed: alternating Taylor bounds of order 3/4 with six squarings in 2^-28 fixed point "
        "with outward rounding"]
    rep.bounds = {"tier": tier, "mc_overrides": T["mc"], "gen_overrides": T["gen"], "wide_simulated": T["sims"]}

    # (A) the theorems on the specification itself
    mc = run_tlc("MC_EventGen", "EventGen_mc", workers=4, overrides=T["mc"], timeout=1500)
    rep.add_tlc(mc, "exhaustive model checking of DocFloor RowFloor OrderPreserving DepartureGeArrival StayCapped RequestCapped "
                    "BatteryCovers FitEnclosureTight FitMinimal FitWitnessDelivers FitMonotone Obs*", "EventGen_mc")
    require_ok(mc, "EventGen model checking")
    if mc.depth != 4:
        raise RuntimeError("vacuous model-checking run: no behaviour reached Finish (depth %r)" % mc.depth)
    rep.notes.append("TLC's -coverage is not usable on this module (its cost-model construction expands every LET reference "
                     "of the fixed-point operators; it does not finish); non-vacuity is established instead by the search "
                     "depth 4 (cfg -> Pick -> Eval -> Finish) of the model-checking run and by one emitted line per Finish "
                     "in the generation runs (action_coverage below is derived from the emissions)")

    # (B) spec -> code.  Cases are executed as TLC emits them; per configuration up to GROUP_MAX cases are kept
    # to be sent through the public entry point (generate_events) together.
    seen, obs, groups, by_kind, samples = set(), [], {}, {}, {}

    def handle(x):
        kind = x["cfg"]["kind"]
        by_kind[kind] = by_kind.get(kind, 0) + 1
        if kind == "fit":
            o = []
            d = replay_fit(x["cfg"], x["inp"], x["out"], o)
            for ob in o:
                ob["case"] = x
                obs.append(ob)
        else:
            d = replay_case_raw(x)
            g = groups.setdefault(jhash(x["cfg"]), (x["cfg"], []))[1]
            if len(g) < GROUP_MAX:
                g.append(x)
        rep.replayed += 1
        if d == "non-decisive":
            rep.non_decisive += 1
            return
        nt = _nontrivial(x)
        rep.count(jhash(x), nt)
        if nt and kind not in samples:
            samples[kind] = x
        if d is not None:
            rep.violation(_key(kind, d), json.dumps(d, default=repr)[:500],
                          {"kind": "case", "module": "props_eventgen", "case": x, "mismatch": d})

    def stream(tag, obj):
        k = jhash(obj)
        if k not in seen:
            seen.add(k)
            handle(obj)

    gen = run_tlc("MC_EventGen", "EventGen_gen", workers=1, overrides=T["gen"], on_emit=stream, timeout=1500)
    require_ok(gen, "EventGen generation")
    n_ex = len(seen)
    gen.coverage = {"Pick": n_ex, "Eval": n_ex, "Finish": n_ex}     # one emitted line per Finish
    rep.add_tlc(gen, "exhaustive case generation", "EventGen_gen", require_actions=["Pick", "Eval", "Finish"])
    import threading
    errs, stats, wide = [], [], []
    lock = threading.Lock()

    def buffer(tag, o):
        k = jhash(o)
        with lock:
            if k not in seen:
                seen.add(k)
                wide.append((k, o))

    def one(kind, n, j):
        try:
            ov = dict(WIDE)
            ov["Kinds"] = '= {"%s"}' % kind
            r = run_tlc("MC_EventGen", "EventGen_gen", workers=1, overrides=ov, simulate=n, depth=4,
                        seed=seed * 100 + j, on_emit=buffer, timeout=1500)
            require_ok(r, "EventGen wide simulation (%s)" % kind)
            stats.append((j, kind, r))
        except Exception as e:  # noqa
            errs.append(e)

    ths = [threading.Thread(target=one, args=(kind, n, j)) for j, (kind, n) in enumerate(T["sims"])]
    [t.start() for t in ths]
    [t.join() for t in ths]
    if errs:
        raise errs[0]
    for j, kind, r in sorted(stats, key=lambda kr: kr[0]):
        rep.add_tlc(r, "sampled %s cases of the wide lattice (-simulate num=%d)" % (kind, T["sims"][j][1]),
                    "EventGen_gen wide Kinds={%s}" % kind)
    wide.sort(key=lambda ko: ko[0])         # deterministic order whatever the thread timing
    for k, o in wide:
        handle(o)
    n_wide = len(wide)
    del wide
    # the public entry points (generate_events) on the cases of one configuration together
    n_groups = n_grouped = 0
    for cfg, xs in groups.values():
        fn = replay_doc_group if cfg["kind"] == "doc" else replay_row_group
        d, n = fn(cfg, xs)
        if n:
            n_groups += 1
            n_grouped += n
        if d is not None:
            bad = d.pop("case")
            g = dict(cfg)
            g["of"] = g.pop("kind")
            g["kind"] = "group"
            rep.violation(_key(cfg["kind"], d), json.dumps(d, default=repr)[:500],
                          {"kind": "case", "module": "props_eventgen", "case": {"cfg": g, "inp": xs, "out": {}},
                           "mismatch": d, "first_bad_case": bad})

    # (C) code -> spec: the fit's real answers judged by TLC against the law
    n_obs = 0
    if obs:
        uniq, useen = [], set()
        for o in obs:
            k = (o["req"], o["stay"], o["V"], o["P"], o["cap"], o["iLo"])
            if k not in useen:
                useen.add(k)
                uniq.append(o)
        verdicts = []
        ob = run_tlc("MC_EventGen", "EventGen_obs", workers=1, extra_files={"EventGenObs.tla": obs_module(uniq)},
                     on_emit=lambda t, o: verdicts.append(o), timeout=1500)
        require_ok(ob, "EventGen observation run")
        rep.add_tlc(ob, "code -> spec: (cap, init) returned by the real batt_cap_fn judged against the two-stage law", "EventGen_obs")
        if len(verdicts) != len(uniq):
            raise TlcFailure("observation run judged %d of %d observations" % (len(verdicts), len(uniq)))
        for v in verdicts:
            n_obs += 1
            if v["out"]["delivers"]:
                rep.traces_accepted += 1
            else:
                src = uniq[v["inp"]["idx"] - 1]
                d = {"field": "outside-law-enclosure", "spec": "request %d..%d (2^-28 SoC of cap)" % (v["out"]["dlo"], v["out"]["dhi"]),
                     "impl": "law gives %d..%d for init/cap in [%d, %d]/2^28, cap %d W*min" %
                             (v["out"]["lo"], v["out"]["hi"], v["inp"]["iLo"], v["inp"]["iHi"], v["inp"]["cap"])}
                rep.violation(_key("fit", d), json.dumps(d)[:500],
                              {"kind": "case", "module": "props_eventgen", "case": v, "mismatch": d, "fit_case": src["case"]})
    rep.exhaustive = True
    rep.notes.append("%d cases of the exhaustive configuration + %d distinct sampled cases of the wide lattice: %s; "
                     "%d configurations (%d sessions) also through generate_events; %d fit observations judged by TLC"
                     % (n_ex, n_wide, by_kind, n_groups, n_grouped, n_obs))
    for kind in ("doc", "row", "fit"):
        if kind in samples:
            rep.sample(samples[kind])
    return rep.finish()


def replay_case_raw(case):
    """As replay_case, but keeps the 'non-decisive' marker."""
    cfg, inp, out = case["cfg"], case["inp"], case["out"]
    if cfg["kind"] == "doc":
        return replay_doc(cfg, inp, out)
    return replay_row(cfg, inp, out)
