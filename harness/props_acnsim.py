"""Checks decided with AcnSim.tla: C01 C02 C04 C05 C09 C10 (and the in-simulation part of C03)."""
import json
import os
import random
import threading
from concurrent.futures import ProcessPoolExecutor

from .common import Report, jhash
from .tlc import run_tlc, require_ok, TlcFailure

ALL_ACTIONS = ["AddSession", "Start", "Loop", "Proc", "ProcEnd", "Decide", "SchedReturn", "UpdateAt", "ApplyWith", "Finish"]


# ------------------------------------------------------------------ behaviour generation
def gen_behaviours(cfg, overrides, total, depth, seed, procs=4, module="MC_AcnSim", exhaustive=False):
    """Behaviours of the specification, de-duplicated. Simulation mode runs `procs` single-worker
    TLC processes with different seeds (TLC's -simulate num is per worker and concurrent PrintT
    output of several workers interleaves)."""
    out, seen, stats = [], set(), []
    lock = threading.Lock()

    def collect(tag, obj):
        k = jhash(obj)
        with lock:
            if k not in seen:
                seen.add(k)
                out.append(obj)

    if exhaustive:
        res = run_tlc(module, cfg, overrides=overrides, workers=1, on_emit=collect, timeout=3600)
        require_ok(res, "behaviour generation " + cfg)
        return out, [res]
    per = max(1, total // procs)
    errs = []

    def one(j):
        try:
            res = run_tlc(module, cfg, overrides=overrides, simulate=per, depth=depth, seed=seed * 1000 + j,
                          workers=1, on_emit=collect, timeout=3600)
            require_ok(res, "behaviour generation " + cfg)
            stats.append(res)
        except Exception as e:  # noqa
            errs.append(e)

    ths = [threading.Thread(target=one, args=(j,)) for j in range(procs)]
    [t.start() for t in ths]
    [t.join() for t in ths]
    if errs:
        raise errs[0]
    out.sort(key=lambda b: jhash(b))  # deterministic order whatever the thread timing
    return out, stats


# ------------------------------------------------------------------ replay workers
def _var(kw, seed):
    from .acnsim_replay import Variation
    return Variation(random.Random(seed), **kw)


def _div_key(d):
    impl = str(d["impl"])
    exc = impl.split(":")[0] if d["field"] == "exception" else "mismatch"
    stem = d["field"].split("[")[0].split("@")[0]
    return "%s:%s:%s" % (d["owner"], stem, exc)


def _work_spec(args):
    bhv, kw, seed = args
    from .acnsim_replay import replay
    d = replay(bhv, _var(kw, seed))
    return d.as_dict() if d else None


def _work_twin(args):
    """C09: the interrupted behaviour must match the spec; if it does not but its
    interruption-free twin does, the interruption is to blame."""
    bhv, kw, seed = args
    from .acnsim_replay import replay, twin_of
    d = replay(bhv, _var(kw, seed))
    if d is None:
        return None
    dd = d.as_dict()
    t = replay(twin_of(bhv), _var(kw, seed))
    dd["twin_ok"] = t is None
    if t is not None:
        dd["twin_divergence"] = t.as_dict()
    return dd


def _work_twostage(args):
    """C09 with two-stage batteries (energies are not predicted by the spec): the interrupted
    run and its twin must produce identical outputs."""
    bhv, kw, seed = args
    from .acnsim_replay import final_outputs, twin_of, Divergence
    try:
        a = final_outputs(bhv, _var(kw, seed))
    except Divergence as d:
        dd = d.as_dict()
        try:
            final_outputs(twin_of(bhv), _var(kw, seed))
            dd["twin_ok"] = True
        except Divergence:
            dd["twin_ok"] = False
        return dd
    try:
        b = final_outputs(twin_of(bhv), _var(kw, seed))
    except Divergence as d:
        dd = d.as_dict()
        dd["twin_ok"] = False
        return dd
    if json.dumps(a, sort_keys=True) != json.dumps(b, sort_keys=True):
        diff = [k for k in a if json.dumps(a[k], sort_keys=True) != json.dumps(b[k], sort_keys=True)]
        return {"owner": "C09", "field": "interrupted_vs_uninterrupted." + ",".join(diff), "spec": "equal outputs",
                "impl": "differ", "step": -1, "note": "", "twin_ok": True}
    return None


def _work_meta(args):
    """C10: the same behaviour under spec-irrelevant variations must yield the same outputs."""
    bhv, kws, seed = args
    from .acnsim_replay import final_outputs, Divergence
    base = None
    for n, kw in enumerate(kws):
        try:
            o = final_outputs(bhv, _var(kw, seed))
        except Divergence as d:
            dd = d.as_dict()
            dd["variation"] = kw
            dd["in_base"] = n == 0
            return dd
        k = kw.get("shift", 0)
        norm = {"stations": {s: ([float(x) for x in p[k:]], [float(x) for x in r[k:]]) for s, (p, r) in o["stations"].items()},
                "lead": {s: (sum(abs(x) for x in p[:k]), sum(abs(x) for x in r[:k])) for s, (p, r) in o["stations"].items()},
                "energy": o["energy"], "t": o["t"] - k, "peak": o["peak"],
                "evhist": sorted(o["evhist"])}
        norm["stations"] = {s: (_strip(p), _strip(r)) for s, (p, r) in norm["stations"].items()}
        if base is None:
            base = norm
            continue
        for key in ("stations", "energy", "t", "peak", "evhist"):
            same = json.dumps(base[key], sort_keys=True) == json.dumps(norm[key], sort_keys=True)
            if key == "peak" and kw != kws[0]:
                # an aggregate over stations: registration order changes the order of summation only
                same = abs(base[key] - norm[key]) <= 1e-9 * max(1.0, abs(base[key]))
            if not same:
                return {"owner": "C10", "field": "variation." + key, "spec": base[key], "impl": norm[key], "step": -1,
                        "note": "", "variation": kw, "in_base": False}
        if any(v != (0, 0) for v in norm["lead"].values()):
            return {"owner": "C10", "field": "variation.lead", "spec": 0, "impl": norm["lead"], "step": -1, "note": "",
                    "variation": kw, "in_base": False}
    return None


def _strip(xs):
    xs = list(xs)
    while xs and xs[-1] == 0:
        xs.pop()
    return xs


def run_pool(fn, jobs, nproc):
    if nproc <= 1 or len(jobs) < 64:
        return [fn(j) for j in jobs]
    with ProcessPoolExecutor(max_workers=nproc) as ex:
        return list(ex.map(fn, jobs, chunksize=max(1, len(jobs) // (nproc * 4))))


def nontrivial(bhv):
    scheds = sum(1 for r in bhv if r["a"] == "sched")
    charged = any(r["a"] == "apply" and any(e > 0 for e in r["E"]) for r in bhv)
    return scheds >= 2 and charged


# ------------------------------------------------------------------ the checks
INV = {
    "C01": ["EventOrder", "ProcessedOnTime", "PlugOnce", "ConnectedExactly", "OneOccupant", "DoneShape"],
    "C02": ["Ledger", "VacantZero", "NotYetZero", "PeakIsMax", "RateBounds"],
    "C04": ["PilotsMatchSubmissions", "AppliedIsDef", "RejectChangesNothing"],
    "C05": ["InvokeIff", "AtMostOncePerPeriod", "InvokedAfterEvents"],
    "C09": ["CrashTransparent", "DumpLoadChangesNothing", "DoneShape"],
    "C10": ["TypeOK"],
}

KINDS = ["cont", "deadband", "finite"]


def _kw_cycle(i, seed, **base):
    r = random.Random(seed * 7919 + i)
    kw = dict(base)
    kw.setdefault("constraints", ["none", "agg", "agg", "3ph", "removed", "3ph", "agg"][i % 7])
    kw.setdefault("evse_kinds", [r.choice(KINDS) for _ in range(3)])
    kw.setdefault("store_hist", bool(i % 3))
    kw.setdefault("est_seed", seed * 31 + i)
    # registration order of the stations (identity / reversed / shuffled): spec-irrelevant everywhere, and after a
    # JSON round trip the loaded network must still pair every station with its own rows (C09)
    kw.setdefault("st_perm", [None, "rev", "shuffle"][(i // 2) % 3])
    # how the simulator is assembled: verbose output on, the queue filled in different documented ways, the scheduler
    # attached after construction
    kw.setdefault("verbose", i % 4 == 3)
    kw.setdefault("queue_form", ["ctor", "add_events", "add_event", "shuffled", "two_batches", "reused", "restored", "generator",
                                 "after_ctor", "empty_ctor"][(i // 3) % 10])
    kw.setdefault("sub_events", i % 8 == 5)
    kw.setdefault("reuse_evs", i % 9 == 4)
    kw.setdefault("peek", i % 5 == 1)
    kw.setdefault("legacy_unplug", i % 4 == 2)
    kw.setdefault("late_scheduler", i % 5 == 2)
    kw.setdefault("np_ints", i % 6 == 4)
    kw.setdefault("aware_start", i % 7 == 3)
    return kw


def model_check(rep, tier, prop):
    cfg = "AcnSim_mc_quick" if tier == "quick" else "AcnSim_mc_small"
    res = run_tlc("MC_AcnSim", cfg, coverage=(tier == "quick"), timeout=5400)
    rep.add_tlc(res, "exhaustive model checking of all AcnSim invariants (decides %s on the model: %s)"
                % (prop, ", ".join(INV[prop])), cfg, require_actions=ALL_ACTIONS + ["SchedRaise", "Resume", "Reject"])
    require_ok(res, "AcnSim model checking")
    rep.bounds["model_checking"] = open(os.path.join(os.path.dirname(__file__), "..", "spec", "cfg", cfg + ".cfg")).read().split("SPECIFICATION")[0]
    if prop == "C01":
        live = run_tlc("MC_AcnSim", "AcnSim_live", timeout=3600)
        rep.add_tlc(live, "liveness: Termination under weak fairness (FairSpec)", "AcnSim_live")
        require_ok(live, "AcnSim liveness")


def judge(rep, prop, bhv, kw, d, owners):
    """Turn one replay outcome into evidence."""
    rep.replayed += 1
    rep.count(jhash(bhv), nontrivial(bhv))
    if d is None:
        return
    if d["owner"] in owners:
        rep.violation(_div_key(d), "%s: spec %s, implementation %s (step %s)" % (
            d["field"], json.dumps(d["spec"])[:200], json.dumps(d["impl"])[:200], d["step"]),
            {"kind": "acnsim", "behaviour": bhv, "variation": kw, "divergence": d})
    else:
        rep.foreign_divergence(d["owner"], {"divergence": d, "variation": kw, "behaviour": bhv})


def long_behaviours(rep, tier, seed, overrides):
    """Sampled behaviours over long horizons (AcnSim_gen_long: ~20 periods, 3 stations, up to 5 sessions, max_recompute up
    to 4, schedules of up to 12 periods that outgrow the allocated width several times)."""
    n = 160 if tier == "quick" else 6000
    bhvs, stats = gen_behaviours("AcnSim_gen_long", overrides, n, 420, seed + 41, procs=4 if tier == "quick" else 12)
    for s in stats:
        rep.add_tlc(s, "behaviour generation, long horizons (-simulate)", "AcnSim_gen_long %s" % overrides)
    rep.notes.append("%d sampled long-horizon behaviours of AcnSim_gen_long" % len(bhvs))
    return bhvs


def odd_period_behaviours(rep, tier, seed, overrides):
    """Behaviours with a period of 7 minutes (60/7 periods per hour: nothing may assume that the period divides an hour)."""
    n = 200 if tier == "quick" else 6000
    ov = dict(overrides, T="= 7")
    bhvs, stats = gen_behaviours("AcnSim_gen", ov, n, 160, seed + 77, procs=2 if tier == "quick" else 8)
    for s in stats:
        rep.add_tlc(s, "behaviour generation with a 7-minute period (-simulate)", "AcnSim_gen %s" % ov)
    rep.notes.append("%d sampled behaviours with a 7-minute period" % len(bhvs))
    return bhvs


def check_spec_replay(prop, tier, seed, owners, overrides, n_quick, n_thorough, base_kw=None, extra_assumptions=()):
    rep = Report(prop, tier, seed)
    rep.rule = ("behaviours of AcnSim.tla generated by TLC (-simulate and one exhaustive tiny configuration), "
                "de-duplicated by content hash; non-trivial = the scheduler is invoked at least twice and at least "
                "one EV receives energy")
    rep.assumptions += [
        "sessions have departure > arrival >= 0 and do not overlap on a station; pilots in the menu are accepted by "
        "every EVSE class used",
        "ideal Battery for spec-vs-code energy comparison; floats compared with 1e-9 relative tolerance",
        "order of events with equal (timestamp, precedence) is not compared",
    ] + list(extra_assumptions)
    model_check(rep, tier, prop)
    n = n_quick if tier == "quick" else n_thorough
    procs = 4 if tier == "quick" else 12
    bhvs, stats = gen_behaviours("AcnSim_gen", overrides, n, 160, seed, procs=procs)
    for s in stats:
        rep.add_tlc(s, "behaviour generation (-simulate, history variable on)", "AcnSim_gen %s" % overrides)
    tiny, st2 = gen_behaviours("AcnSim_gen_tiny", {"MaxCrash": overrides.get("MaxCrash", "= 0")} , 0, 0, seed, exhaustive=True)
    rep.add_tlc(st2[0], "behaviour generation (exhaustive tiny configuration)", "AcnSim_gen_tiny")
    rep.exhaustive = False
    rep.notes.append("every behaviour of AcnSim_gen_tiny (%d) replayed; %d sampled behaviours of AcnSim_gen" % (len(tiny), len(bhvs)))
    longb = long_behaviours(rep, tier, seed, {k: v for k, v in overrides.items() if k in ("MaxCrash", "AllowDump")})
    oddb = odd_period_behaviours(rep, tier, seed, overrides)
    allb = tiny + bhvs + longb + oddb
    jobs = [(b, _kw_cycle(i, seed, **(base_kw or {})), seed * 100003 + i) for i, b in enumerate(allb)]
    if prop == "C04":
        # pilots inside the acceptance band but above the station's maximum (32.0005 A): recorded and applied as submitted
        jobs += [(b, _kw_cycle(i + 2, seed, eps_pilots=True, **(base_kw or {})), seed * 100003 + i)
                 for i, b in enumerate(bhvs[:len(bhvs) // 4])]
        allb = allb + bhvs[:len(bhvs) // 4]
    if prop == "C02":
        # the ledger ties three separately stored quantities together for ANY battery model: the same behaviours with
        # two-stage batteries (continuous and stepwise), where only the implementation's own numbers are compared
        jobs += [(b, _kw_cycle(i + 1, seed, twostage=True, **(base_kw or {})), seed * 100003 + i)
                 for i, b in enumerate(oddb + bhvs[:len(bhvs) // 4])]
        allb = allb + oddb + bhvs[:len(bhvs) // 4]
    results = run_pool(_work_spec, jobs, 1 if tier == "quick" and len(jobs) < 400 else 12)
    for (b, kw, _), d in zip(jobs, results):
        judge(rep, prop, b, kw, d, owners)
    for b in allb[:1] + bhvs[:1]:
        rep.sample(b)
    from .acnsim_trace import trace_validation
    trace_validation(rep, prop, owners, seed + hash_prop(prop), 60 if tier == "quick" else 1500, repo_tests=True)
    return rep


def hash_prop(prop):
    return int(prop[1:]) * 7


def _work_step(args):
    bhv, kw, seed = args
    from .acnsim_replay import replay_step
    d = replay_step(bhv, _var(kw, seed))
    return d.as_dict() if d else None


STEP_ACTIONS = ["StartStep", "StepCall", "SLoop", "SLoopError", "UpdateAt", "ApplyAt", "SEvents", "SProc", "SProcOccupied"]


def step_mode(rep, prop, owners, tier, seed):
    """The second entry point, Simulator.step (spec/AcnSimStep.tla): model checking + replay."""
    ov = {"MaxCrash": "= 2", "MaxArr": "= 2"} if tier == "quick" else {}
    mc = run_tlc("MC_AcnSimStep", "AcnSimStep_mc", overrides=ov, coverage=(tier == "quick"), timeout=3600)
    rep.add_tlc(mc, "step(): exhaustive model checking (ledger, pilots, plug-in discipline carry over; LateOnlyAtZero, "
                    "StepStuck, ResolveIsForever describe what differs from run())", "AcnSimStep_mc %s" % ov,
                require_actions=STEP_ACTIONS)
    require_ok(mc, "AcnSimStep model checking")
    n = 300 if tier == "quick" else 6000
    bhvs, stats = gen_behaviours("AcnSimStep_gen", {}, n, 120, seed + 17, procs=2 if tier == "quick" else 8,
                                 module="MC_AcnSimStep")
    for s in stats:
        rep.add_tlc(s, "step(): behaviour generation (-simulate)", "AcnSimStep_gen")
    jobs = [(b, _kw_cycle(i, seed), seed * 100003 + i) for i, b in enumerate(bhvs)]
    for (b, kw, _), d in zip(jobs, run_pool(_work_step, jobs, 8)):
        rep.replayed += 1
        rep.count("step-" + jhash(b), sum(1 for r in b if r["a"] == "apply") >= 1)
        if d is None:
            continue
        if d["owner"] in owners:
            rep.violation("%s:step:%s" % (d["owner"], d["field"].split("[")[0].split("@")[0]),
                          "step(): %s: spec %s, implementation %s (record %s)" % (
                              d["field"], json.dumps(d["spec"])[:200], json.dumps(d["impl"])[:200], d["step"]),
                          {"kind": "acnsim_step", "behaviour": b, "variation": kw, "divergence": d})
        else:
            rep.foreign_divergence(d["owner"], {"divergence": d, "variation": kw, "behaviour": b})
    rep.notes.append("%d behaviours of AcnSimStep.tla (Simulator.step driven with the spec's schedules; TypeError and "
                     "StationOccupiedError outcomes included) replayed" % len(jobs))


def fractional_pilots(rep, prop, owners, tier, seed):
    """Behaviours whose schedules hold non-integral pilots (units of 1/2 A; rows mixing ints and floats),
    replayed on continuous / deadband EVSEs."""
    n = 400 if tier == "quick" else 8000
    bhvs, stats = gen_behaviours("AcnSim_gen_frac", {}, n, 160, seed + 29, procs=2 if tier == "quick" else 8)
    for s in stats:
        rep.add_tlc(s, "behaviour generation with non-integral pilots (PU = 2; PilotUnitsExact, RateBounds, Ledger checked "
                       "on every sampled state)", "AcnSim_gen_frac")
    jobs = []
    for i, b in enumerate(bhvs):
        r = random.Random(seed * 613 + i)
        kw = _kw_cycle(i, seed, evse_kinds=[r.choice(["cont", "deadband"]) for _ in range(3)])
        jobs.append((b, kw, seed * 100003 + i))
    for (b, kw, _), d in zip(jobs, run_pool(_work_spec, jobs, 8)):
        judge(rep, prop, b, kw, d, owners)
    rep.notes.append("%d behaviours with non-integral pilots replayed" % len(jobs))


def check_C01(tier, seed):
    rep = check_spec_replay("C01", tier, seed, {"C01"}, {"MaxCrash": "= 0", "Menu": "<- MenuBasic"}, 1500, 40000)
    step_mode(rep, "C01", {"C01"}, tier, seed)
    from .props_network import check_network    # the station-level API driven directly (Network.tla), C01's fields
    check_network(rep, tier, seed, "C01")
    return rep.finish()


def check_C02(tier, seed):
    rep = check_spec_replay("C02", tier, seed, {"C02", "C03"}, {"MaxCrash": "= 0", "Menu": "<- MenuBasic"}, 1500, 40000)
    step_mode(rep, "C02", {"C02", "C03"}, tier, seed)
    fractional_pilots(rep, "C02", {"C02", "C03"}, tier, seed)
    from .props_network import check_network    # Network.tla: per-EV ledger and current_charging_rates across direct calls
    check_network(rep, tier, seed, "C02")
    return rep.finish()


def check_C04(tier, seed):
    rep = check_spec_replay("C04", tier, seed, {"C04"}, {"MaxCrash": "= 1", "Menu": "<- MenuC04", "AllowDump": "= FALSE"},
                            1500, 40000)
    step_mode(rep, "C04", {"C04"}, tier, seed)
    fractional_pilots(rep, "C04", {"C04"}, tier, seed)
    return rep.finish()


def check_C05(tier, seed):
    rep = check_spec_replay("C05", tier, seed, {"C05"}, {"MaxCrash": "= 0", "Menu": "<- MenuBasic"}, 1200, 30000)
    # isolation: a scheduler that mutates everything it is handed must not change the trajectory
    bhvs, stats = gen_behaviours("AcnSim_gen", {"MaxCrash": "= 0", "Menu": "<- MenuBasic"}, 600 if tier == "quick" else 12000,
                                 160, seed + 1, procs=4)
    for s in stats:
        rep.add_tlc(s, "behaviour generation for the mutating-scheduler replay", "AcnSim_gen")
    jobs = [(b, _kw_cycle(i, seed, mutate=True, constraints=["agg", "3ph"][i % 2]), seed * 100003 + i)
            for i, b in enumerate(bhvs)]
    for (b, kw, _), d in zip(jobs, run_pool(_work_spec, jobs, 12)):
        # with a hostile scheduler any divergence of the trajectory is an isolation failure
        if d is not None and d["owner"] in ("C01", "C02", "C04"):
            d = dict(d, owner="C05", field="isolation:" + d["field"])
        judge(rep, "C05", b, kw, d, {"C05"})
    rep.notes.append("%d behaviours replayed with a scheduler that mutates every object the Interface hands out" % len(jobs))
    from .control import check_control
    check_control(rep, tier)
    from .props_network import check_network    # the views a scheduler reads (active EVs, station order, ...), Network.tla
    check_network(rep, tier, seed, "C05")
    return rep.finish()


def check_C09(tier, seed):
    rep = Report("C09", tier, seed)
    rep.rule = ("behaviours of AcnSim.tla with up to 2 interruptions (scheduler exception or rejected schedule) and "
                "optional JSON round trips, generated by TLC; non-trivial = at least one interruption, two scheduler "
                "invocations and some energy delivered")
    rep.assumptions += ["naive datetime start (the JSON format stores no tzinfo)",
                        "an interruption is an exception raised by the scheduler or by schedule validation",
                        "a mismatch is attributed to C09 only if the interruption-free twin behaviour (same scheduler "
                        "answers) matches the specification"]
    model_check(rep, tier, "C09")
    n = 1500 if tier == "quick" else 40000
    bhvs, stats = gen_behaviours("AcnSim_gen", {"MaxCrash": "= 2"}, n, 170, seed, procs=4 if tier == "quick" else 12)
    for s in stats:
        rep.add_tlc(s, "behaviour generation (-simulate) with interruptions", "AcnSim_gen MaxCrash=2")
    tiny, st2 = gen_behaviours("AcnSim_gen_tiny", {"MaxCrash": "= 1", "AllowDump": "= TRUE"}, 0, 0, seed, exhaustive=True)
    rep.add_tlc(st2[0], "behaviour generation (exhaustive tiny configuration, every crash point)", "AcnSim_gen_tiny")
    longb = long_behaviours(rep, tier, seed, {"MaxCrash": "= 2"})
    allb = [b for b in tiny + bhvs + longb if any(r["a"] in ("raise", "reject", "dumpload") for r in b)]
    jobs = [(b, _kw_cycle(i, seed), seed * 100003 + i) for i, b in enumerate(allb)]
    for (b, kw, _), d in zip(jobs, run_pool(_work_twin, jobs, 12)):
        if d is not None and d["owner"] != "C09" and d.get("twin_ok"):
            d = dict(d, owner="C09", field="after_interruption:" + d["field"])
        rep.replayed += 1
        rep.count(jhash(b), nontrivial(b))
        if d is None:
            continue
        if d["owner"] == "C09":
            rep.violation(_div_key(d), "%s: spec %s, implementation %s (step %s)" % (
                d["field"], json.dumps(d["spec"])[:200], json.dumps(d["impl"])[:200], d["step"]),
                {"kind": "acnsim_twin", "behaviour": b, "variation": kw, "divergence": d})
        else:
            rep.foreign_divergence(d["owner"], {"divergence": d, "variation": kw, "behaviour": b})
    # two-stage batteries: interrupted run == twin run (implementation vs implementation)
    sub = allb[: (300 if tier == "quick" else 6000)]
    jobs = [(b, _kw_cycle(i, seed, twostage=True), seed * 100003 + i) for i, b in enumerate(sub)]
    for (b, kw, _), d in zip(jobs, run_pool(_work_twostage, jobs, 12)):
        rep.replayed += 1
        if d is None:
            continue
        if d.get("twin_ok"):
            d = dict(d, owner="C09", field="twostage:" + d["field"])
            rep.violation(_div_key(d), "%s: %s vs %s" % (d["field"], json.dumps(d["spec"])[:200], json.dumps(d["impl"])[:200]),
                          {"kind": "acnsim_twostage", "behaviour": b, "variation": kw, "divergence": d})
        else:
            rep.foreign_divergence(d["owner"], {"divergence": d, "variation": kw, "behaviour": b})
    rep.notes.append("%d interrupted behaviours replayed against the spec; %d of them also with Linear2StageBattery "
                     "against their interruption-free twin" % (len(allb), len(sub)))
    for b in allb[:2]:
        rep.sample(b)
    from .acnsim_trace import trace_validation
    trace_validation(rep, "C09", {"C09"}, seed + 63, 60 if tier == "quick" else 1500)
    # the id-based JSON mechanism itself over arbitrary object graphs with freely chosen sharing (Serial.tla)
    from .props_serial import check_serial
    check_serial(rep, tier, seed)
    return rep.finish()


def check_C10(tier, seed):
    rep = Report("C10", tier, seed)
    rep.rule = ("behaviours of AcnSim.tla replayed under spec-irrelevant variations chosen per behaviour: station "
                "registration permutation, session/event list permutation, constraint insertion order, mapping entry "
                "order and value types, time shift k (a multiple of max_recompute); non-trivial as for C01")
    rep.assumptions += ["the spec state is keyed by station/session identity, never by position: order independence "
                        "holds in the model by construction; the replay shows the implementation agrees",
                        "time shift: k is a multiple of max_recompute (the cadence of unsolicited invocations is "
                        "anchored at period 0 by design), the scripted scheduler returns {} before period k",
                        "sorted schedulers are compared only on scenarios with distinct priority keys"]
    model_check(rep, tier, "C10")
    n = 800 if tier == "quick" else 20000
    bhvs, stats = gen_behaviours("AcnSim_gen", {"MaxCrash": "= 0", "Menu": "<- MenuBasic", "NS": "= 3", "Volt": "<- Volt3",
                                                "VL": "= 3120"}, n, 160, seed, procs=4 if tier == "quick" else 12)
    for s in stats:
        rep.add_tlc(s, "behaviour generation (-simulate), 3 stations", "AcnSim_gen NS=3")
    jobs = []
    for i, b in enumerate(bhvs):
        r = random.Random(seed * 31 + i)
        ns = b[0]["ns"]
        mr = b[0]["mr"]
        perm = list(range(ns))
        r.shuffle(perm)
        sp = list(range(len(b[0]["sess"])))
        r.shuffle(sp)
        cons = ["agg", "3ph"][i % 2]
        base = dict(constraints=cons, evse_kinds=[r.choice(KINDS) for _ in range(ns)])
        kws = [dict(base), dict(base),                       # two identical builds
               dict(base, st_perm=perm), dict(base, sess_perm=sp), dict(base, con_perm=True),
               dict(base, shift=(mr or 1) * r.choice([1, 3])), dict(base, st_perm=perm, sess_perm=sp, con_perm=True)]
        jobs.append((b, kws, seed * 100003 + i))
    for (b, kws, _), d in zip(jobs, run_pool(_work_meta, jobs, 12)):
        rep.replayed += len(kws)
        rep.count(jhash(b), nontrivial(b))
        if d is None:
            continue
        if d["owner"] == "C10" or (not d.get("in_base") and d["owner"] != "C06"):
            d = dict(d, owner="C10", field="variation:" + d["field"] if not d["field"].startswith("variation") else d["field"])
            rep.violation(_div_key(d), "%s under %s: %s vs %s" % (d["field"], d.get("variation"), json.dumps(d["spec"])[:160],
                                                                   json.dumps(d["impl"])[:160]),
                          {"kind": "acnsim_meta", "behaviour": b, "variations": kws, "divergence": d})
        else:
            rep.foreign_divergence(d["owner"], {"divergence": d, "variations": kws, "behaviour": b})
    from .props_sched import metamorphic_real_schedulers
    metamorphic_real_schedulers(rep, bhvs[: (150 if tier == "quick" else 3000)], seed)
    for b in bhvs[:2]:
        rep.sample(b)
    from .hashseed import cross_hashseed
    cross_hashseed(rep, "C10", "acnsim", seed, 40 if tier == "quick" else 800)
    return rep.finish()
