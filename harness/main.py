"""./check entry point."""
import argparse
import importlib
import json
import os
import sys
import traceback

REGISTRY = {
    "C01": ("props_acnsim", "check_C01"), "C02": ("props_acnsim", "check_C02"), "C04": ("props_acnsim", "check_C04"),
    "C05": ("props_acnsim", "check_C05"), "C09": ("props_acnsim", "check_C09"), "C10": ("props_acnsim", "check_C10"),
    "C13": ("props_evse", "check_C13"),
    "C06": ("props_feasibility", "check_C06"),
    "C20": ("props_dataclient", "check_C20"),
    "C19": ("props_stochasticnet", "check_C19"),
    "C12": ("props_currents", "check_C12"),
    "C17": ("props_tariff", "check_C17"),
    "C15": ("props_eventgen", "check_C15"),
    "C16": ("props_sites", "check_C16"),
    "C03": ("props_battery", "check_C03"),
    "C14": ("props_battery", "check_C14"),
    "C11": ("props_eventqueue", "check_C11"),
    "C18": ("props_analysis", "check_C18"),
    "C07": ("props_sortedalgo", "check_C07"),
    "C08": ("props_sortedalgo", "check_C08"),
}


def main():
    ap = argparse.ArgumentParser()
    ap.add_argument("prop")
    ap.add_argument("--tier", default=os.environ.get("VERIF_TIER", "quick"), choices=["quick", "thorough"])
    ap.add_argument("--replay")
    a = ap.parse_args()
    seed = int(os.environ.get("VERIF_SEED", "20260929"))
    if a.prop not in REGISTRY:
        print("unknown property %s" % a.prop)
        return 2
    mod, fn = REGISTRY[a.prop]
    try:
        m = importlib.import_module("harness." + mod)
        if a.replay:
            return importlib.import_module("harness.replay_file").replay_file(a.prop, a.replay)
        return getattr(m, fn)(a.tier, seed)
    except Exception:  # machinery failure, never reported as a violation
        traceback.print_exc()
        print("MACHINERY-FAILURE property=%s" % a.prop)
        return 2


if __name__ == "__main__":
    sys.exit(main())
