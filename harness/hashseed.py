"""Reproducibility across interpreter processes (C10 "two simulations built from equal inputs
produce identical outputs", C19 "runs are reproducible under a fixed random seed").

./check pins PYTHONHASHSEED=0, so iteration order of sets/dicts of strings is the same in every
run of a check; code that (wrongly) lets its result depend on that order would never be noticed
inside one process.  Here the same seeded executions of the real code are repeated in child
interpreters started with different PYTHONHASHSEED values and their digests must be equal.

  python -m harness.hashseed <kind> <seed> <n>      (child: prints one JSON line with n digests)
"""
import json
import os
import random
import subprocess
import sys

from .common import jhash, VERIF


def _digest_stoch(seed, k):
    from . import props_stochasticnet as ps
    rng = random.Random(seed * 977 + k)
    cfg = ps.trace_config(rng, 2 + k % 2, k)
    if k % 4:
        cfg["early"] = True
    # satisfied EVs are what early departure acts on: make most requests reachable in 1-2 periods
    for i, s in enumerate(cfg["sess"]):
        if (i + k) % 3:
            s["req"] = [16640, 12000, 5000][(i + k) % 3]
    trace, net = ps.record_trace(cfg)
    if net.crash:
        return cfg, "crash:" + net.crash
    lines = [{x: r[x] for x in r if x != "free"} for r in net.log]
    return cfg, jhash(lines)


def _digest_acnsim(seed, k):
    from . import acnsim_trace as at
    try:
        tr, info = at.record_one(seed * 1013 + k, ideal=bool(k % 3))
    except at.OutOfScope:
        return {"seed": seed * 1013 + k}, "out-of-scope"
    return info, jhash(json.loads(json.dumps(tr["ev"], default=at._jsonable)))


KINDS = {"stoch": _digest_stoch, "acnsim": _digest_acnsim}


def child(kind, seed, n):
    import warnings
    warnings.simplefilter("ignore")
    out = []
    for k in range(n):
        _, d = KINDS[kind](seed, k)
        out.append(d)
    print("DIGESTS " + json.dumps(out))


def cross_hashseed(rep, prop, kind, seed, n, hashseeds=(0, 1, 2, 3)):
    """Run the child under several PYTHONHASHSEED values; book the comparison in rep."""
    results = {}
    procs = {}
    for h in hashseeds:
        env = dict(os.environ, PYTHONHASHSEED=str(h), ACNPORTAL_VERIF="1", PYTHONWARNINGS="ignore")
        procs[h] = subprocess.Popen([sys.executable, "-m", "harness.hashseed", kind, str(seed), str(n)], cwd=VERIF, env=env,
                                    stdout=subprocess.PIPE, stderr=subprocess.PIPE, text=True)
    for h, p in procs.items():
        out, err = p.communicate(timeout=1800)
        line = [l for l in out.splitlines() if l.startswith("DIGESTS ")]
        if p.returncode != 0 or not line:
            raise RuntimeError("hash-seed child %s failed (exit %s): %s" % (h, p.returncode, err[-1500:]))
        results[h] = json.loads(line[0][len("DIGESTS "):])
    base = results[hashseeds[0]]
    ndiff = 0
    for k in range(n):
        vals = {h: results[h][k] for h in hashseeds}
        rep.replayed += len(hashseeds)
        rep.count("hashseed:%s:%d" % (kind, k), True)
        if len(set(vals.values())) > 1:
            ndiff += 1
            rep.violation("%s:hashseed:%s" % (prop, kind),
                          "the same seeded run gives different results in interpreters started with different "
                          "PYTHONHASHSEED (case %d: %s)" % (k, json.dumps(vals)[:300]),
                          {"kind": "case", "module": "hashseed", "fn": "replay_case",
                           "case": {"kind": kind, "seed": seed, "k": k, "hashseeds": list(hashseeds)}})
    rep.notes.append("%d seeded executions of the real code (%s) repeated in %d child interpreters with PYTHONHASHSEED "
                     "%s: %d differ" % (n, kind, len(hashseeds), list(hashseeds), ndiff))
    return ndiff


def replay_case(case):
    res = {}
    for h in case["hashseeds"]:
        env = dict(os.environ, PYTHONHASHSEED=str(h), ACNPORTAL_VERIF="1", PYTHONWARNINGS="ignore")
        out = subprocess.run([sys.executable, "-m", "harness.hashseed", case["kind"], str(case["seed"]),
                              str(case["k"] + 1)], cwd=VERIF, env=env, capture_output=True, text=True, timeout=1800)
        line = [l for l in out.stdout.splitlines() if l.startswith("DIGESTS ")]
        res[h] = json.loads(line[0][len("DIGESTS "):])[case["k"]] if line else "child failed"
    if len(set(res.values())) > 1:
        return {"field": "digest per PYTHONHASHSEED", "impl": res, "spec": "equal"}
    return None


if __name__ == "__main__":
    child(sys.argv[1], int(sys.argv[2]), int(sys.argv[3]))
