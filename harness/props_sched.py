"""C10 with real schedulers: the scenarios of TLC-generated AcnSim behaviours are run under the real
UncontrolledCharging and finite-rate SortedSchedulingAlgo (scripted answers of the behaviour are
ignored; only its scenario is used) under spec-irrelevant variations - station registration order,
session/event list order, constraint insertion order, time shift, duplicate build - and the
per-station outputs must be identical."""
import json
import random
import warnings

from .common import jhash


def _distinct_keys(sess, key):
    """Sessions that are ever connected at the same time must have distinct priority keys
    (the property excludes schedulers whose decisions hinge on ties)."""
    for i, a in enumerate(sess):
        for b in sess[i + 1:]:
            overlap = a["arr"] < b["dep"] and b["arr"] < a["dep"]
            if overlap and key(a) == key(b):
                return False
    return True


def run_real(start, var_kw, seed, algo):
    from datetime import datetime
    from acnportal.acnsim import Simulator
    from acnportal.acnsim.events import EventQueue, PluginEvent, RecomputeEvent, UnplugEvent
    from acnportal.acnsim.models import EV, Battery
    from acnportal.algorithms import (UncontrolledCharging, SortedSchedulingAlgo, first_come_first_served,
                                      earliest_deadline_first, last_come_first_served)
    from .acnsim_replay import Variation, build_network, sid, vid, KWH, START
    var = Variation(random.Random(seed), **var_kw)
    from acnportal.acnsim.network import ChargingNetwork
    net = build_network(start, var, cls=ChargingNetwork)
    k = var.shift
    sess = start["sess"]
    order = list(range(len(sess)))
    if var.sess_perm:
        order = [order[i] for i in var.sess_perm if i < len(order)] + [i for i in order if i not in var.sess_perm]
    events = []
    for i0 in order:
        x = sess[i0]
        ev = EV(x["arr"] + k, x["dep"] + k, x["req"] / KWH, sid(x["st"]), vid(i0 + 1),
                Battery(x["cap"] / KWH, x["init"] / KWH, x["pw"] / 1000.0))
        events.append(PluginEvent(x["arr"] + k, ev))
    rec = [RecomputeEvent(r + k) for r in start["recomp"] if r < 1000]
    by_id = {e.ev.session_id: e.ev for e in events}
    rec += [UnplugEvent(r % 1000 + k, by_id[vid(r // 1000)]) for r in start["recomp"] if r >= 1000]
    events = (rec + events) if var.sess_perm else (events + rec)
    alg = {"uncontrolled": lambda: UncontrolledCharging(),
           "fcfs": lambda: SortedSchedulingAlgo(first_come_first_served),
           "lcfs": lambda: SortedSchedulingAlgo(last_come_first_served),
           "edf": lambda: SortedSchedulingAlgo(earliest_deadline_first),
           "fcfs_unint": lambda: SortedSchedulingAlgo(first_come_first_served, uninterrupted_charging=True),
           "edf_unint": lambda: SortedSchedulingAlgo(earliest_deadline_first, uninterrupted_charging=True),
           }[algo]()
    sim = Simulator(net, alg, EventQueue(events), START, period=start["T"], verbose=False)
    with warnings.catch_warnings():
        warnings.simplefilter("ignore")
        sim.run()
    out = {}
    for s in range(1, start["ns"] + 1):
        j = sim.network.station_ids.index(sid(s))
        p, r = sim.pilot_signals[j].tolist(), sim.charging_rates[j].tolist()
        lead = (float(sum(abs(x) for x in p[:k])), float(sum(abs(x) for x in r[:k])))
        out[sid(s)] = (_strip(p[k:]), _strip(r[k:]), lead)
    en = {v: sim.ev_history[v].energy_delivered for v in sorted(sim.ev_history)}
    return {"stations": out, "energy": en, "t": sim.iteration - k, "peak": float(sim.peak)}


def _strip(xs):
    xs = list(xs)
    while xs and xs[-1] == 0:
        xs.pop()
    return xs


def _work(args):
    start, kws, seed, algo = args
    base = None
    for n, kw in enumerate(kws):
        try:
            o = run_real(start, kw, seed, algo)
        except Exception as e:  # noqa
            return {"owner": "C10" if n else "C07", "field": "real:%s:exception" % algo, "spec": "a completed run",
                    "impl": "%s: %s" % (type(e).__name__, e), "variation": kw, "in_base": n == 0}
        if base is None:
            base = o
            continue
        for key in ("stations", "energy", "t", "peak"):
            same = json.dumps(base[key], sort_keys=True) == json.dumps(o[key], sort_keys=True)
            if key == "peak" and kw != kws[0]:
                # the peak is an aggregate over stations: a different registration order sums the same
                # numbers in a different order (last-bit differences are not what the property is about;
                # per-station outputs are compared exactly, identical builds bit for bit)
                same = abs(base[key] - o[key]) <= 1e-9 * max(1.0, abs(base[key]))
            if not same:
                return {"owner": "C10", "field": "real:%s:%s" % (algo, key), "spec": base[key], "impl": o[key],
                        "variation": kw, "in_base": False}
    return None


def metamorphic_real_schedulers(rep, bhvs, seed):
    from .props_acnsim import run_pool
    jobs, seen = [], set()
    for i, b in enumerate(bhvs):
        start = b[0]
        key = jhash([start["sess"], start["recomp"], start["ns"]])
        if key in seen or not start["sess"]:
            continue
        seen.add(key)
        r = random.Random(seed * 131 + i)
        ns = start["ns"]
        perm = list(range(ns))
        r.shuffle(perm)
        sp = list(range(len(start["sess"])))
        r.shuffle(sp)
        algos = ["uncontrolled"]
        if _distinct_keys(start["sess"], lambda x: x["arr"]):
            algos += ["fcfs", "lcfs"]
        if _distinct_keys(start["sess"], lambda x: x["dep"]):
            algos.append("edf")
            # uninterrupted charging ranks sessions by remaining time (= departure): no ties there either
            algos.append("edf_unint")
            if "fcfs" in algos:
                algos.append("fcfs_unint")
        algo = algos[i % len(algos)]
        # heterogeneous finite-rate stations (different level sets, hence different minimum pilots)
        kinds = [["finite", "finiteB", "finiteC"][(s + i) % 3] for s in range(ns)] if i % 2 else ["finite"] * ns
        base = dict(constraints=["agg", "3ph", "dup"][(i // 2) % 3], evse_kinds=kinds)
        kws = [dict(base), dict(base), dict(base, st_perm=perm), dict(base, sess_perm=sp), dict(base, con_perm=True),
               dict(base, shift=r.choice([1, 2, 5])), dict(base, st_perm=perm, sess_perm=sp, con_perm=True)]
        jobs.append((start, kws, seed * 7 + i, algo))
    n = 0
    for job, d in zip(jobs, run_pool(_work, jobs, 12)):
        rep.replayed += len(job[1])
        n += 1
        if d is None:
            continue
        if d["owner"] == "C10":
            rep.violation("C10:%s" % d["field"], "%s under %s: %s vs %s" % (
                d["field"], d.get("variation"), json.dumps(d["spec"])[:160], json.dumps(d["impl"])[:160]),
                {"kind": "case", "module": "props_sched", "fn": "replay_case",
                 "case": {"start": job[0], "kws": job[1], "seed": job[2], "algo": job[3]}, "mismatch": d})
        else:
            rep.foreign_divergence(d["owner"], {"divergence": d, "case": {"start": job[0], "kws": job[1], "seed": job[2], "algo": job[3]}})
    rep.notes.append("%d scenarios run under the real UncontrolledCharging / SortedSchedulingAlgo (FCFS, LCFS, EDF on "
                     "finite-rate EVSEs, only where simultaneously connected sessions have distinct keys), each under 7 "
                     "variations" % n)


def replay_case(case):
    return _work((case["start"], case["kws"], case["seed"], case["algo"]))
