"""Checks decided with SortedAlgo.tla (C07, C08) and real-scheduler metamorphic runs for C10."""


def metamorphic_real_schedulers(rep, bhvs, seed):
    return
