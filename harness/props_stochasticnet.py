"""C19: StochasticNet.tla bound to the real StochasticNetwork inside the real Simulator.

(A) TLC decides the C19 formulas on StochasticNet.tla (every scenario within the constants, every
    order among simultaneous events, every choice of free station, early departure on/off).
(B) spec -> code: every behaviour TLC emits is replayed through the real Simulator + StochasticNetwork
    with `random.choice` patched to return the station the specification chose; the network is
    observed after every plugin / unplug call and around post_charging_update by a recording
    subclass (which only calls super) and compared with the specification's post-state.
(C) code -> spec: runs with real `random` seeds (nothing patched) under real schedulers are
    recorded and validated in batch by TLC against StochasticNetTrace.tla; same seed twice must
    give the identical trace; corrupted traces must be rejected (self-test on every run).
"""
import copy
import json
import random
import warnings
from datetime import datetime
from unittest import mock

from .common import Report, jhash
from .tlc import run_tlc, require_ok, TlcFailure

with warnings.catch_warnings():
    warnings.simplefilter("ignore")
    from acnportal.acnsim import Simulator, EventQueue, PluginEvent
    from acnportal.acnsim.models import EV, EVSE, Battery
    from acnportal.acnsim.network import Current
    from acnportal.contrib.acnsim.network import StochasticNetwork
    from acnportal.algorithms import BaseAlgorithm

KWH = 60000.0           # W*min per kWh
FULL = 60.0             # "fully charged" threshold 1e-3 kWh in W*min
MAXSESS_TRACE = 12      # MaxSess of cfg/StochasticNet_trace.cfg
MC_ACTIONS = ["AddSession", "Start", "Loop", "DoPluginStoch", "DoPluginWait", "DoUnplugWaiting",
              "DoUnplugConnected", "DoUnplugGone", "ProcEnd", "Apply", "DoEarlyDeparture", "PostEnd", "Finish"]


def sess_id(i):
    return "sess-%d" % i


def stn(s):
    return "S%d" % s


def idx(name):
    return int(name.rsplit("-", 1)[1]) if name.startswith("sess-") else int(name[1:])


def close(x, n, tol=1e-9):
    return abs(float(x) - float(n)) <= tol * max(1.0, abs(float(n)))


# ------------------------------------------------------------------ observing the real network
class RecordingNetwork(StochasticNetwork):
    """The real StochasticNetwork; every override calls super and only appends to a log."""

    def __init__(self, **kw):
        super().__init__(**kw)
        self.log = []
        self.sim = None
        self.evs = {}            # session index -> the EV object of the scenario
        self._in_post = False
        self._offered = None     # what random.choice was offered during the current plugin call
        self.energy_margin = None  # smallest |remaining demand - threshold| seen [W*min]
        self.problems = []       # structural inconsistencies seen while observing
        self.crash = None        # exception that escaped Simulator.run

    def _obs(self):
        occ = []
        for station_id, evse in self._EVSEs.items():
            ev = evse.ev
            if ev is None:
                occ.append(0)
                continue
            i = idx(ev.session_id)
            occ.append(i)
            if ev is not self.evs.get(i):
                self.problems.append("station %s holds an object that is not the session's EV" % station_id)
            if ev.station_id != station_id:
                self.problems.append("EV %s at station %s has station_id %r" % (ev.session_id, station_id, ev.station_id))
        w = []
        for key, ev in self.waiting_queue.items():
            w.append(idx(key))
            if ev is not self.evs.get(idx(key)):
                self.problems.append("waiting_queue[%s] is not the session's EV" % key)
            if ev.station_id is not None:
                self.problems.append("waiting EV %s has station_id %r" % (key, ev.station_id))
        return {"occ": occ, "w": w, "swaps": self.swaps, "never": self.never_charged, "early": self.early_unplug}

    def _t(self):
        return self.sim.iteration if self.sim is not None else -1

    def plugin(self, ev, station_id=None):
        self._offered = None
        super().plugin(ev, station_id) if station_id is not None else super().plugin(ev)
        st = 0 if ev.station_id is None else idx(ev.station_id)
        rec = {"a": "plugin", "id": idx(ev.session_id), "st": st, "t": self._t(),
               "free": sorted(idx(s) for s in (self._offered or []))}
        rec.update(self._obs())
        self.log.append(rec)

    def unplug(self, station_id, session_id=None):
        super().unplug(station_id, session_id)
        rec = {"a": "early" if self._in_post else "unplug", "id": idx(session_id), "t": self._t()}
        rec.update(self._obs())
        if self._in_post:
            # post_charging_update increments early_unplug only after this call returns: the counter
            # is observed when post_charging_update has returned ("post"), not in the middle
            del rec["early"]
        self.log.append(rec)

    def post_charging_update(self):
        ev_e = {}
        for i, ev in self.evs.items():
            e = float(ev.energy_delivered) * KWH
            ev_e[i] = e
            m = abs(float(ev.requested_energy) * KWH - e - FULL)
            if self.energy_margin is None or m < self.energy_margin:
                self.energy_margin = m
        self.log.append({"a": "apply", "t": self._t(), "evE": ev_e})
        self._in_post = True
        try:
            super().post_charging_update()
        finally:
            self._in_post = False
        rec = {"a": "post", "t": self._t()}
        rec.update(self._obs())
        self.log.append(rec)


class SteeredQueue(EventQueue):
    """The real EventQueue. It leaves the order among events with equal (timestamp, precedence) to
    heap internals; here that order - and nothing else - is the one the specification chose."""

    def __init__(self, events, rank):
        super().__init__(events)
        self._rank = rank

    def get_current_events(self, timestep):
        evs = super().get_current_events(timestep)
        return sorted(evs, key=lambda e: (e.timestamp, e.precedence,
                                          self._rank.get((e.event_type, e.ev.session_id), 10 ** 6)))


class Scripted(BaseAlgorithm):
    """Pilot p_t on every station in period t (called every period)."""

    def __init__(self, pilots, stations):
        super().__init__()
        self.max_recompute = 1
        self._pilots, self._stations = pilots, stations

    def schedule(self, active_sessions):
        p = self._pilots.get(self.interface.current_time, 0)
        return {s: [p] for s in self._stations}


def make_network(ns, v, pmax, early, limit=None):
    net = RecordingNetwork(early_departure=early)
    for s in range(1, ns + 1):
        net.register_evse(EVSE(stn(s), max_rate=pmax), v, 0)
    if limit is not None:
        net.add_constraint(Current([stn(s) for s in range(1, ns + 1)]), limit, name="aggregate")
    return net


def make_evs(net, sess, initial_station, battery="ideal"):
    evs = []
    for i, s in enumerate(sess, start=1):
        req = s["req"] / KWH
        if battery == "ideal":
            batt = Battery(req, 0, 100.0)
        else:
            from acnportal.acnsim.models import Linear2StageBattery
            batt = Linear2StageBattery(req * 1.25, req * 0.1, 100.0)
        # the driver's *estimate* of the departure is irrelevant to the network and the simulator (only schedulers
        # read it): vary it so that nothing there can depend on it
        est = s["dep"] + (-1, 0, 2, 0, 5)[(i * 7 + s["arr"] + s["dep"]) % 5]
        if est <= s["arr"]:
            est = s["dep"]
        ev = EV(s["arr"], s["dep"], req, initial_station(i), sess_id(i), batt, estimated_departure=est)
        net.evs[i] = ev
        evs.append(ev)
    return evs


# ------------------------------------------------------------------ (B) spec -> code replay
def replay_case(b):
    """Execute one TLC behaviour through the real classes. Returns None or the first mismatch."""
    start, steps, done = b[0], b[1:-1], b[-1]
    ns, v, T, pmax = start["ns"], start["v"], start["T"], start["pmax"]
    plan = [(s["st"], s["free"]) for s in steps if s["a"] == "plugin" and s["st"] != 0]
    rank = {}
    for s in steps:
        if s["a"] in ("plugin", "unplug"):
            rank[("Plugin" if s["a"] == "plugin" else "Unplug", sess_id(s["id"]))] = len(rank)
    pilots = {s["t"]: s["p"] for s in steps if s["a"] == "apply"}
    unplanned = []

    with warnings.catch_warnings():
        warnings.simplefilter("ignore")
        net = make_network(ns, v, pmax, start["early"])
        # the station id an EV is created with is irrelevant to the stochastic network
        evs = make_evs(net, start["sess"], lambda i: None if i % 2 else stn(1 + i % ns))
        queue = SteeredQueue([PluginEvent(ev.arrival, ev) for ev in evs], rank)
        sim = Simulator(net, Scripted(pilots, [stn(s) for s in range(1, ns + 1)]), queue,
                        datetime(2020, 1, 1), period=T, verbose=False)
        net.sim = sim

        def choice(seq):
            net._offered = list(seq)
            if plan:
                st, _ = plan.pop(0)
                if stn(st) in seq:
                    return stn(st)
                unplanned.append("station %d chosen by the specification was not offered: %r" % (st, list(seq)))
            else:
                unplanned.append("random.choice called although the specification queues the EV: %r" % (list(seq),))
            return seq[0]

        try:
            with mock.patch.object(random, "choice", choice):
                sim.run()
        except Exception as e:  # noqa
            return {"a": "run", "field": "exception", "spec": "run() returns", "impl": "%s: %s" % (type(e).__name__, e),
                    "log_tail": net.log[-3:]}

    todo = []
    for n, (s, r) in enumerate(zip(steps, net.log)):
        if s["a"] == "apply":
            todo = s["todo"]
        if s["a"] == "early" and r.get("a") == "early" and r["id"] != s["id"] and r["id"] in todo and len(todo) > 1:
            # the property does not say WHICH of several satisfied EVs leaves first; the generated
            # behaviour assumed station order and the code chose another legal candidate
            return {"non_decisive": True, "a": "early", "field": "order", "step": n}
        for f in ("a", "id", "t", "st", "free", "occ", "w", "swaps", "never", "early"):
            if f == "early" and s["a"] == "early" and r.get("a") == "early":
                continue        # not observable in the middle of post_charging_update, see RecordingNetwork.unplug
            if f in s and s[f] != r.get(f):
                return {"a": s["a"], "field": f, "step": n, "spec": s, "impl": r}
        if s["a"] == "apply":
            for i, e in enumerate(s["evE"], start=1):
                got = r["evE"].get(i, 0.0)
                if not close(got, e):
                    return {"a": "apply", "field": "evE", "step": n, "session": i, "spec": e, "impl": got}
    if len(steps) != len(net.log):
        n = min(len(steps), len(net.log))
        return {"a": "run", "field": "length", "step": n, "spec": steps[n] if n < len(steps) else "run() returns",
                "impl": net.log[n] if n < len(net.log) else "run() returned"}
    if unplanned:
        return {"a": "plugin", "field": "random.choice", "spec": "as planned", "impl": unplanned[0]}
    if net.problems:
        return {"a": "observe", "field": "consistency", "spec": "EV.station_id / object identity consistent", "impl": net.problems[0]}
    final = net._obs()
    for f in ("occ", "w", "swaps", "never", "early"):
        if final[f] != done[f]:
            return {"a": "done", "field": f, "spec": done[f], "impl": final[f]}
    if sim.iteration != done["t"]:
        return {"a": "done", "field": "iteration", "spec": done["t"], "impl": sim.iteration}
    if not sim.event_queue.empty():
        return {"a": "done", "field": "event_queue", "spec": "empty", "impl": len(sim.event_queue)}
    order = [idx(e.ev.session_id) for e in sim.event_history if e.event_type == "Plugin"]
    if order != done["order"]:
        return {"a": "done", "field": "plugin order", "spec": done["order"], "impl": order}
    if sorted(sim.ev_history) != sorted(sess_id(i) for i in done["gone"]):
        return {"a": "done", "field": "ev_history", "spec": done["gone"], "impl": sorted(sim.ev_history)}
    return None


def nontrivial(b):
    return any(s["a"] == "plugin" and s["st"] == 0 for s in b[1:-1])


def tags_of(b):
    t = set()
    for s in b[1:-1]:
        if s["a"] == "early":
            t.add("early")
        if s["a"] == "unplug":
            t.add("unplug-" + s["case"])
        if s["a"] == "plugin":
            t.add("wait" if s["st"] == 0 else ("choice" if len(s["free"]) > 1 else "forced"))
    return t


def corrupt_behaviour(b):
    """One field of the specification's expectation changed: the replay must notice."""
    c = copy.deepcopy(b)
    for s in c[1:-1]:
        if s["a"] == "plugin" and s["st"] == 0:
            s["w"] = list(reversed(s["w"])) if len(s["w"]) > 1 else s["w"] + [99]
            return c
    for s in c[1:-1]:
        if s["a"] == "post":
            s["never"] += 1
            return c
    return None


# ------------------------------------------------------------------ (C) code -> spec traces
def trace_config(rng, ns, k):
    """A randomized scenario on an integer lattice (periods; W*min) with real-valued consequences."""
    n = rng.randint(ns + 1, min(MAXSESS_TRACE, ns + 6))
    horizon = rng.randint(2, 8)
    sess = []
    for _ in range(n):
        arr = rng.randint(0, horizon)
        sess.append({"arr": arr, "dep": arr + rng.randint(1, 6),
                     # (0: a session that asks for nothing - it waits, is admitted and leaves like any other)
                     "req": rng.choice([5000, 12000, 16640, 20000, 33280, 41000, 70000, 250000, 0])})
    sess.sort(key=lambda s: (s["arr"], s["dep"], s["req"]))
    return {"ns": ns, "seed": rng.randint(0, 10 ** 6), "early": rng.random() < 0.7, "sess": sess,
            "sched": ["uncontrolled", "fcfs", "llf"][k % 3], "battery": "ideal" if k % 4 else "2stage",
            "v": 208, "T": 5, "pmax": 16}


def record_trace(cfg, reuse=False):
    """Run the real code with a real random seed. Returns (trace | None if not decisive, network).
    reuse: the network object has already served one complete simulation (the same scenario) when the recorded one
    starts - it is empty again, and an empty network is an empty network."""
    from acnportal.algorithms import UncontrolledCharging, SortedSchedulingAlgo, first_come_first_served, least_laxity_first
    ns = cfg["ns"]
    with warnings.catch_warnings():
        warnings.simplefilter("ignore")
        if cfg["sched"] == "uncontrolled":
            sched, limit = UncontrolledCharging(), None
        else:
            sched = SortedSchedulingAlgo(first_come_first_served if cfg["sched"] == "fcfs" else least_laxity_first)
            limit = cfg["pmax"] * ns * 0.75       # the aggregate constraint binds
        # "reproducible under a fixed random seed": the seed is fixed at the top of the script, before anything is built
        # (every other configuration), or right before run()
        seed_first = cfg["seed"] % 2 == 0
        if seed_first:
            random.seed(cfg["seed"])
        net = make_network(ns, cfg["v"], cfg["pmax"], cfg["early"], limit)
        if reuse:
            evs0 = make_evs(net, cfg["sess"], lambda i: stn(1 + (i * 7) % ns), cfg["battery"])
            sim0 = Simulator(net, type(sched)(*(() if cfg["sched"] == "uncontrolled" else (sched._sort_fn,))),
                             EventQueue([PluginEvent(ev.arrival, ev) for ev in evs0]), datetime(2020, 1, 1), period=cfg["T"],
                             verbose=False)
            net.sim = sim0
            random.seed(cfg["seed"] + 17)
            sim0.run()
            net.log, net.problems, net.evs, net.energy_margin = [], [], {}, None
            if seed_first:
                random.seed(cfg["seed"])
        evs = make_evs(net, cfg["sess"], lambda i: stn(1 + (i * 7) % ns), cfg["battery"])
        sim = Simulator(net, sched, EventQueue([PluginEvent(ev.arrival, ev) for ev in evs]),
                        datetime(2020, 1, 1), period=cfg["T"], verbose=False)
        net.sim = sim
        if not seed_first:
            random.seed(cfg["seed"])
        try:
            sim.run()
        except Exception as e:  # noqa - the real code failed on a legal scenario
            net.crash = "%s: %s" % (type(e).__name__, e)
            return None, net
    lines = []
    for r in net.log:
        r = dict(r)
        r.pop("free", None)
        if r["a"] == "apply":
            r["evE"] = [int(round(r["evE"].get(i, 0.0))) for i in range(1, MAXSESS_TRACE + 1)]
        lines.append(r)
    fin = {"a": "done", "t": sim.iteration}
    fin.update(net._obs())
    lines.append(fin)
    tid = "ns%d-%s-%s-%s-seed%d-%s" % (ns, cfg["sched"], cfg["battery"], "early" if cfg["early"] else "stay",
                                       cfg["seed"], jhash(cfg["sess"])[:6])
    trace = {"tid": tid, "early": bool(cfg["early"]), "sess": cfg["sess"], "ev": lines}
    decisive = net.energy_margin is None or net.energy_margin >= 2.0
    if net.problems:
        trace["problems"] = net.problems[:3]
    return (trace if decisive else None), net


def validate_traces(traces, ns, cfg="StochasticNet_trace", timeout=900):
    """One TLC run for all traces (same number of stations). Returns ({tid: (matched, len)}, result)."""
    body = "".join(json.dumps({k: t[k] for k in ("tid", "early", "sess", "ev")}) + "\n" for t in traces)
    res = run_tlc("StochasticNetTrace", cfg, workers=1, deadlock=False, tags=("VER",),
                  env_extra={"TRACE_FILE": "traces.ndjson"}, extra_files={"traces.ndjson": body},
                  overrides={"NS": "= %d" % ns}, timeout=timeout)
    ver = {v["tid"]: (v["matched"], v["len"]) for v in res.emitted.get("VER", [])}
    return ver, res


def diagnose(trace, ns):
    """Why was this trace rejected: the violated formula, or the line no action matches."""
    try:
        ver, res = validate_traces([trace], ns, cfg="StochasticNet_trace_diag", timeout=300)
    except TlcFailure as e:
        return "diagnosis failed: %s" % str(e)[:200]
    if res.violated:
        return "violates %s" % res.violated
    m = ver.get(trace["tid"], (0, 0))[0]
    return "no specification action matches line %d" % (m + 1)


def corrupt_trace(trace, kind):
    """Copies of an accepted trace with ONE logged field changed / one call dropped."""
    c = copy.deepcopy(trace)
    c["tid"] = "corrupt:%s:%s" % (kind, trace["tid"])
    ev = c["ev"]
    ns = len(ev[-1]["occ"])
    if kind == "station":          # the EV reports another station than the one it occupies
        for r in ev:
            if r["a"] == "plugin" and r["st"] != 0:
                r["st"] = r["st"] % ns + 1
                return c
    elif kind == "queue-order":    # two waiting EVs swapped
        for r in ev:
            if "w" in r and len(r["w"]) >= 2:
                r["w"][0], r["w"][1] = r["w"][1], r["w"][0]
                return c
    elif kind == "never":          # the never-charged counter off by one
        for r in ev:
            if r["a"] == "unplug":
                r["never"] += 1
                return c
    elif kind == "occupant":       # a station holds somebody else
        for r in ev:
            if r["a"] == "post" and any(r["occ"]) and r["w"]:
                k = [j for j, o in enumerate(r["occ"]) if o][0]
                r["occ"][k] = r["w"][0]
                return c
    elif kind == "dropped-call":   # one call missing from the log
        for n, r in enumerate(ev):
            if r["a"] == "unplug":
                del ev[n]
                return c
    elif kind == "early-flag":     # early departures recorded in a run with early_departure off / on
        if any(r["a"] == "early" for r in ev):
            c["early"] = False
            return c
    return None


def replay_trace_case(cfg):
    """Re-record one real-seed run and validate it alone."""
    trace, net = record_trace(cfg)
    if net.crash:
        return {"field": "exception", "impl": net.crash}
    if trace is None:
        return None
    ver, _ = validate_traces([trace], cfg["ns"])
    m, ln = ver.get(trace["tid"], (0, -1))
    if m == ln and not net.problems:
        return None
    return {"tid": trace["tid"], "matched": m, "len": ln, "why": diagnose(trace, cfg["ns"]),
            "line": trace["ev"][m] if m < len(trace["ev"]) else None, "problems": net.problems[:3]}


# ------------------------------------------------------------------ the check
def check_C19(tier, seed):
    rep = Report("C19", tier, seed)
    thorough = tier == "thorough"
    rep.rule = ("behaviours of StochasticNet.tla (scenario x order of simultaneous events x choice of free station x "
                "early_departure) replayed through Simulator+StochasticNetwork, distinct by content; non-trivial = at "
                "least one EV had to wait (more simultaneous sessions than stations); plus real-seed traces accepted by TLC")
    rep.assumptions += [
        "arrivals >= 0, departure > arrival; requests are whole numbers of W*min; ideal Battery with capacity = request in "
        "the replay (remaining demand is 0 or >= 8320 W*min, never near the 1e-3 kWh threshold)",
        "the order among events with equal (timestamp, precedence) is an input: the real EventQueue's order is replaced, "
        "within such groups only, by the order the specification chose (a subclass that re-sorts get_current_events)",
        "generated behaviours let fully charged EVs leave in station registration order (what the code does); model "
        "checking and trace validation allow any order",
        "never_charged is compared with 'departed without ever having had a station' (an EV admitted at the instant of "
        "its own departure, by an Unplug of the same timestamp processed first, counts as a swap, not as never charged)",
        "traces whose remaining demand comes within 2 W*min of the threshold at an observation are skipped as non-decisive"]

    # ---- (A) model checking
    mc_over = ({"MaxSess": "= 3", "MaxArr": "= 2", "MaxDur": "= 3", "ReqSet": "<- ReqThree"} if thorough else
               {"MaxSess": "= 3", "MaxArr": "= 2", "MaxDur": "= 2", "ReqSet": "<- ReqTwo"})
    mc = run_tlc("MC_StochasticNet", "StochasticNet_mc", coverage=True, workers=4, overrides=mc_over, timeout=1500)
    rep.add_tlc(mc, "exhaustive: ExactlyOnePlace NoTwoInOneStation NoWaitWhileFree QueueInArrivalOrder FIFOAdmission "
                    "NeverChargedCounted SwapsCounted EarlyCounted NoOverstay DepartureTime EarlyEffective AllGoneAtEnd",
                "StochasticNet_mc %s" % mc_over, require_actions=MC_ACTIONS)
    require_ok(mc, "StochasticNet model checking")
    if thorough:
        for what, over in (("4 sessions on 2 stations", {"MaxSess": "= 4", "MaxArr": "= 1", "MaxDur": "= 2", "ReqSet": "<- ReqTwo"}),
                           ("4 sessions on 3 stations", {"NS": "= 3", "MaxSess": "= 4", "MaxArr": "= 1", "MaxDur": "= 2", "ReqSet": "<- ReqTwo"}),
                           ("scheduler menu {0, 8, 16} A, 1 station", {"NS": "= 1", "Pilots": "<- PilotMenu", "MaxArr": "= 1", "MaxDur": "= 3"})):
            r = run_tlc("MC_StochasticNet", "StochasticNet_mc", coverage=True, workers=4, overrides=over, timeout=1500)
            rep.add_tlc(r, "exhaustive: " + what, "StochasticNet_mc %s" % over)
            require_ok(r, "StochasticNet model checking (%s)" % what)
    live_over = {"MaxSess": "= 3"} if thorough else {"MaxSess": "= 2", "NS": "= 1"}
    live = run_tlc("MC_StochasticNet", "StochasticNet_live", workers=4, overrides=live_over, timeout=1500)
    rep.add_tlc(live, "liveness: Termination under weak fairness (more sessions than stations)", "StochasticNet_live %s" % live_over)
    require_ok(live, "StochasticNet liveness")

    # ---- (B) behaviours -> real code (streamed: each behaviour is replayed as TLC prints it)
    seen, covered = set(), set()
    st = {"first_ok": None, "sample": None, "n": 0}

    def handle(tag, b):
        k = jhash(b)
        if k in seen:
            return
        seen.add(k)
        d = replay_case(b)
        if d is not None and d.get("non_decisive"):
            rep.non_decisive += 1
            return
        rep.replayed += 1
        rep.count(k, nontrivial(b))
        covered.update(tags_of(b))
        if d is not None:
            rep.violation("C19:replay:%s:%s" % (d["a"], d["field"]), json.dumps(d, default=repr)[:600],
                          {"kind": "case", "module": "props_stochasticnet", "case": b, "mismatch": d})
        elif nontrivial(b):
            if st["first_ok"] is None and corrupt_behaviour(b) is not None:
                st["first_ok"] = b
            if st["sample"] is None and "early" in tags_of(b) and len(b) < 22:
                st["sample"] = b

    gens = [({} if not thorough else {"MaxArr": "= 2"}, "3 sessions on 2 stations")]
    if thorough:
        gens.append(({"NS": "= 3", "MaxSess": "= 4", "MaxArr": "= 1", "MaxDur": "= 1"}, "4 sessions on 3 stations"))
    for over, what in gens:
        gen = run_tlc("MC_StochasticNet", "StochasticNet_gen", workers=1, overrides=over, timeout=3000, on_emit=handle)
        require_ok(gen, "StochasticNet behaviour generation")
        rep.add_tlc(gen, "exhaustive behaviour generation, every tie order and station choice: " + what, "StochasticNet_gen %s" % over)
    n_ex = len(seen)
    plans = [({"NS": "= 3", "MaxSess": "= 6", "MinSess": "= 4", "MaxArr": "= 3", "MaxDur": "= 3", "ReqSet": "<- ReqThree"}, 1),
             ({"NS": "= 2", "MaxSess": "= 5", "MinSess": "= 3", "MaxArr": "= 2", "MaxDur": "= 4", "ReqSet": "<- ReqThree",
               "Pilots": "<- PilotMenu"}, 2)]
    for over, k in plans:
        sm = run_tlc("MC_StochasticNet", "StochasticNet_gen", workers=1, simulate=10000 if thorough else 500, depth=150,
                     seed=seed + k, overrides=over, timeout=3000, on_emit=handle)
        require_ok(sm, "StochasticNet simulation")
        rep.add_tlc(sm, "sampled larger scenarios (-simulate)", "StochasticNet_gen %s" % over)
    need = {"early", "unplug-waiting", "unplug-connected", "unplug-gone", "wait", "choice", "forced"}
    if not need <= covered:
        raise RuntimeError("vacuous replay: behaviours never exercised %s" % sorted(need - covered))
    rep.exhaustive = True
    rep.notes.append("all %d behaviours of the exhaustive generation configuration(s) replayed, plus %d distinct sampled larger ones"
                     % (n_ex, len(seen) - n_ex))
    # self-test of the replay: a corrupted expectation must be noticed
    if st["first_ok"] is not None:
        if replay_case(corrupt_behaviour(st["first_ok"])) is None:
            raise RuntimeError("replay self-test failed: a corrupted behaviour was replayed without a mismatch")
        rep.notes.append("replay self-test: corrupted behaviour rejected")
    elif not rep.violations:
        raise RuntimeError("replay self-test could not be run")
    if st["sample"] is not None:
        rep.sample(st["sample"])

    # ---- (C) real seeds -> traces -> TLC
    rng = random.Random(seed)
    n_traces = 3000 if thorough else 200
    by_ns = {2: [], 3: []}
    cfg_of = {}
    patterns = set()
    steps_total = 0
    for k in range(n_traces):
        ns = 2 if k % 2 else 3
        cfg = trace_config(rng, ns, k)
        trace, net = record_trace(cfg)
        if net.crash:
            rep.violation("C19:trace:exception:" + net.crash.split(":")[0], "Simulator.run raised %s (config %s)" % (net.crash, json.dumps(cfg)[:300]),
                          {"kind": "case", "module": "props_stochasticnet", "fn": "replay_trace_case", "case": cfg})
            continue
        if trace is None:
            rep.non_decisive += 1
            continue
        if net.problems:
            rep.violation("C19:trace:consistency", net.problems[0],
                          {"kind": "case", "module": "props_stochasticnet", "fn": "replay_trace_case", "case": cfg})
        if k % 5 == 0:       # reproducible under a fixed seed
            if k % 10 == 0:
                # ... also on a network object that has served a complete simulation before (who sits where, step by step)
                used, unet = record_trace(cfg, reuse=True)
                if unet.crash or used is None or [r.get("occ") for r in used["ev"]] != [r.get("occ") for r in trace["ev"]]:
                    rep.violation("C19:trace:not-reproducible-on-used-network",
                                  "same seed and scenario on a network object that was used before: different placement (%s)"
                                  % (unet.crash or trace["tid"]),
                                  {"kind": "case", "module": "props_stochasticnet", "fn": "replay_trace_case", "case": cfg})
            again, _ = record_trace(cfg)
            if again is None or json.dumps(again, sort_keys=True) != json.dumps(trace, sort_keys=True):
                rep.violation("C19:trace:not-reproducible", "same seed, different trace: %s" % trace["tid"],
                              {"kind": "case", "module": "props_stochasticnet", "fn": "replay_trace_case", "case": cfg})
            rep.count("repro:" + trace["tid"], False)
        if trace["tid"] in cfg_of:
            continue
        cfg_of[trace["tid"]] = cfg
        by_ns[ns].append(trace)
        steps_total += len(trace["ev"])
        patterns.add(tuple(r["st"] for r in trace["ev"] if r["a"] == "plugin"))
    if len(patterns) < 10:
        raise RuntimeError("real seeds produced only %d distinct station-choice patterns" % len(patterns))
    kinds = ["station", "queue-order", "never", "occupant", "dropped-call", "early-flag"]
    for ns, traces in by_ns.items():
        if not traces:
            continue
        corrupted, todo = [], list(kinds)
        for t in traces:           # one corrupted copy per kind, from the first trace where it applies
            for kind in list(todo):
                c = corrupt_trace(t, kind)
                if c is not None:
                    corrupted.append(c)
                    todo.remove(kind)
            if not todo:
                break
        if todo and len(traces) > 50 and not rep.violations:
            raise RuntimeError("corruption self-test could not be built for %s (ns=%d)" % (todo, ns))
        ver, res = validate_traces(traces + corrupted, ns)
        require_ok(res, "trace validation ns=%d" % ns)
        rep.add_tlc(res, "batch validation of %d real-seed traces (+%d corrupted copies), %d stations"
                    % (len(traces), len(corrupted), ns), "StochasticNet_trace NS=%d" % ns)
        missing = [t["tid"] for t in traces + corrupted if t["tid"] not in ver]
        if missing:
            raise TlcFailure("no verdict for traces %s" % missing[:3])
        for c in corrupted:
            m, ln = ver[c["tid"]]
            if m == ln:
                raise RuntimeError("trace self-test failed: corrupted trace accepted: %s" % c["tid"])
        rep.notes.append("trace self-test ns=%d: %d corrupted traces rejected (%s)" % (ns, len(corrupted), ", ".join(
            "%s@line %d" % (c["tid"].split(":")[1], ver[c["tid"]][0] + 1) for c in corrupted)))
        for t in traces:
            m, ln = ver[t["tid"]]
            if m == ln:
                rep.traces_accepted += 1
                rep.count("trace:" + t["tid"], any(r["a"] == "plugin" and r["st"] == 0 for r in t["ev"]))
            else:
                # class of the failure = kind of the first line that is not matched; the (costly)
                # diagnosis by a second TLC run is made once per class
                key = "C19:trace:rejected-%s" % t["ev"][m]["a"]
                known = key in rep.known_hits or any(v["key"] == key for v in rep.violations)
                why = "" if known else diagnose(t, ns)
                rep.violation(key, "trace %s rejected at line %d of %d (%s): %s" % (
                    t["tid"], m + 1, ln, why, json.dumps(t["ev"][m])[:300]),
                              {"kind": "case", "module": "props_stochasticnet", "fn": "replay_trace_case", "case": cfg_of[t["tid"]]})
        if traces:
            rep.sample({"tid": traces[0]["tid"], "early": traces[0]["early"], "sess": traces[0]["sess"], "ev": traces[0]["ev"][:12]})
    rep.notes.append("%d real-seed traces, %d logged calls, %d distinct station-choice patterns" % (
        sum(len(v) for v in by_ns.values()), steps_total, len(patterns)))
    rep.bounds = {"model checking": mc_over, "generation": [g[0] or "cfg/StochasticNet_gen.cfg" for g in gens], "simulation": [p[0] for p in plans],
                  "traces": {"stations": [2, 3], "sessions": "ns+1..%d" % MAXSESS_TRACE, "schedulers": ["uncontrolled", "fcfs", "llf"],
                             "batteries": ["ideal", "2stage"]}}
    from .hashseed import cross_hashseed
    cross_hashseed(rep, "C19", "stoch", seed, 60 if tier == "quick" else 1500)
    return rep.finish()
