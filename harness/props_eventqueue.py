"""C11: the event queue, bound to EventQueue.tla by the ROUND TRIP (DESIGN 2.1).

  spec -> plans        TLC enumerates / samples call sequences (calls + arguments, no results) of
                       EventQueue.tla (cfg EventQueue_gen).
  plans -> real code   every plan is executed on a real acnportal EventQueue holding real
                       PluginEvent / UnplugEvent / RecomputeEvent objects (with real EVs), with a
                       real EventQueue.from_json(q.to_json()) at the planned points; every call is
                       logged with its arguments and what the implementation returned.
  logs -> spec         the logs are validated in batches by TLC against EventQueueTrace.tla
                       (thousands of traces per TLC process); TLC answers per trace
                       "accepted" or "rejected at line k in specification state S".

Why not a plain replay: get_event() may return ANY event of minimal (timestamp, precedence), so
the specification cannot pre-commit to the implementation's choice.

A second, independent oracle (RefQueue below: a sorted-list model in Python) judges every log line
as well; it supplies the wording of a rejection, and the two oracles must agree on every trace
(a disagreement is a machinery failure, never a violation).
"""
import json
import random
import warnings
from concurrent.futures import ThreadPoolExecutor

from .common import Report, jhash
from .tlc import run_tlc as _run_tlc, require_ok, TlcFailure

PREC = {"Unplug": 0, "Plugin": 10, "Recompute": 20, "Urgent": -1000, "Base": 1000}
BATCH_FILE = "EventQueue_batch.ndjson"
MC_ACTIONS = ["Add", "AddMany", "DoAddManyFail", "DoGetEvent", "GetCurrentAt", "QLen", "QEmpty", "QLastTs", "RoundTrip"]


def run_tlc(module, cfg, heap="2g", **kw):
    """Several TLC processes run side by side here: each gets an explicit heap limit (the JVM default of
    a quarter of the machine per process adds up), and a run that dies without a verdict (killed from
    outside, out of memory) is repeated once before it counts as a machinery failure."""
    kw.setdefault("env_extra", {"JAVA_TOOL_OPTIONS": "-Xmx" + heap})
    try:
        return _run_tlc(module, cfg, **kw)
    except TlcFailure as e:
        if "gave no verdict" not in str(e):
            raise
        return _run_tlc(module, cfg, **kw)


# ----------------------------------------------------------------------------------------------
# executing a plan on the real code
# ----------------------------------------------------------------------------------------------
def _is_int(x):
    import numpy as np
    return isinstance(x, (int, np.integer)) and not isinstance(x, bool)


class _Ids:
    """Identity of the event objects the harness created: spec id <-> python object."""

    def __init__(self):
        self.by_obj = {}      # id(obj) -> spec id   (objects are kept alive in self.keep)
        self.by_sess = {}     # (session_id, event_type) -> spec id   (survives JSON)
        self.keep = []
        self.open_evs = []    # EVs of Plugin events not yet used by an Unplug event
        self.notes = []

    def make(self, sid, ts, kind):
        from acnportal.acnsim.events import PluginEvent, UnplugEvent, RecomputeEvent
        from acnportal.acnsim.models import EV, Battery
        if kind == "Recompute":
            e = RecomputeEvent(ts)
        elif kind in ("Urgent", "Base"):
            # a plain Event (the public base class) with its documented attributes set by the caller: the default
            # precedence +inf, or -inf ("before everything else in its period")
            from acnportal.acnsim.events import Event
            e = Event(ts)
            e.event_type = kind
            if kind == "Urgent":
                e.precedence = float("-inf")
        else:
            if kind == "Unplug" and self.open_evs:
                ev = self.open_evs.pop(0)          # the unplug of an earlier plug-in: one shared EV object
            else:
                ev = EV(ts, ts + 4, 10.0, "st-%d" % sid, "sess-%d" % sid, Battery(40.0, 0.0, 6.6))
                if kind == "Plugin":
                    self.open_evs.append(ev)
            e = (PluginEvent if kind == "Plugin" else UnplugEvent)(ts, ev)
            self.by_sess[(ev.session_id, kind)] = sid
        self.by_obj[id(e)] = sid
        self.keep.append(e)
        return e

    def describe(self, e, override_id=None):
        """{id, ts, kind} of an object the queue handed out; id 0 if it is not one of ours."""
        sid = override_id
        if sid is None:
            sid = self.by_obj.get(id(e))
        if sid is None:
            try:
                sid = self.by_sess.get((e.ev.session_id, e.event_type))
            except Exception:
                sid = None
        ts = getattr(e, "timestamp", None)
        kind = getattr(e, "event_type", None)
        if not _is_int(ts) or not isinstance(kind, str) or sid is None:
            self.notes.append("unrepresentable result %r (id=%r ts=%r kind=%r)" % (e, sid, ts, kind))
            return {"id": 0, "ts": int(ts) if _is_int(ts) else 0, "kind": kind if isinstance(kind, str) else "?"}
        return {"id": int(sid), "ts": int(ts), "kind": kind}

    def adopt_restored(self, old_q, new_q):
        """After a JSON round trip the Recompute events are fresh, payload-free objects.  They are
        identified with the Recompute events of the original queue that carry the same timestamp
        (any pairing will do: such events are indistinguishable).  Returns the described content."""
        pool = {}
        for item in list(old_q.queue):
            e = item[1]
            if getattr(e, "event_type", None) in ("Recompute", "Urgent", "Base") and id(e) in self.by_obj:
                pool.setdefault((e.event_type, e.timestamp), []).append(self.by_obj[id(e)])
        for v in pool.values():
            v.sort()
        content = []
        for item in list(new_q.queue):
            e = item[1]
            if getattr(e, "event_type", None) in ("Recompute", "Urgent", "Base") and id(e) not in self.by_obj:
                cands = pool.get((e.event_type, getattr(e, "timestamp", None))) or []
                if cands:
                    sid = cands.pop(0)
                    self.by_obj[id(e)] = sid
                    self.keep.append(e)
            content.append(self.describe(e))
        return content


def _memoise_version_lookup():
    """to_json()/from_json() call pkg_resources.require("acnportal") every time (3-6 ms of scanning the
    environment, far more than the serialisation itself).  The answer cannot change within a process:
    memoised in the harness process only; the library code is untouched."""
    import functools
    import pkg_resources
    if not hasattr(pkg_resources.require, "cache_info"):
        pkg_resources.require = functools.lru_cache(maxsize=None)(pkg_resources.require)


def saturate(ops):
    """The plan with every query after every call and a complete drain at the end."""
    out = []
    for o in ops:
        out.append(o)
        if o["op"] not in ("len", "empty", "last_ts"):
            out += [{"op": "len"}, {"op": "empty"}, {"op": "last_ts"}]
    out.append({"op": "drain"})
    return out


class SourceFailed(Exception):
    """Raised by the event source of an add_many_fail call (never by the library)."""


def execute(ops, queue_cls=None):
    """Run the calls of a plan on a real EventQueue.  Returns (log lines, notes).

    Nothing here knows what the answers should be: the lines hold what the implementation returned."""
    if queue_cls is None:
        from acnportal.acnsim.events import EventQueue as queue_cls
    _memoise_version_lookup()
    ids = _Ids()
    lines = []
    next_id = 1
    partial_add = False
    with warnings.catch_warnings():
        warnings.simplefilter("ignore")
        q = queue_cls()
        for o in ops:
            op = o["op"]
            if op == "drain":        # harness-side suffix: get_event() until empty() says so
                guard = next_id + 1
                try:
                    while not q.empty() and guard > 0:
                        lines.append({"op": "get_event", "exc": 0, "ev": ids.describe(q.get_event())})
                        guard -= 1
                    lines.append({"op": "empty", "exc": 0, "b": bool(q.empty())})
                    lines.append(_last_ts_line(q, ids))
                except Exception as exc:  # noqa
                    lines.append({"op": "get_event", "exc": 1, "err": repr(exc)[:200]})
                    break
                continue
            line = {"op": op, "exc": 0}
            try:
                if op == "add":
                    e = ids.make(next_id, o["ts"], o["kind"])
                    line["ev"] = {"id": next_id, "ts": o["ts"], "kind": o["kind"]}
                    next_id += 1
                    q.add_event(e)
                elif op == "add_many":
                    es = []
                    line["evs"] = []
                    for a in o["evs"]:
                        es.append(ids.make(next_id, a["ts"], a["kind"]))
                        line["evs"].append({"id": next_id, "ts": a["ts"], "kind": a["kind"]})
                        next_id += 1
                    q.add_events(es)
                elif op == "add_many_fail":
                    # the source of the batch fails after producing k events; the caller catches that and goes on
                    k, made = o["k"], []
                    line["k"], line["evs"] = k, [{"id": next_id + i, "ts": a["ts"], "kind": a["kind"]}
                                                   for i, a in enumerate(o["evs"])]

                    def source():
                        for i in range(k):
                            e = ids.make(next_id + i, o["evs"][i]["ts"], o["evs"][i]["kind"])
                            made.append(e)
                            yield e
                        raise SourceFailed("the event source failed after %d events" % k)
                    try:
                        q.add_events(source())
                        ids.notes.append("add_events swallowed the failure of its source")
                    except SourceFailed:
                        pass
                    next_id += k
                    held = {id(item[1]) for item in list(q.queue)}
                    line["kept"] = [line["evs"][i] for i, e in enumerate(made) if id(e) in held]
                    partial_add = partial_add or len(line["kept"]) != k
                elif op == "get_event":
                    if partial_add and len(q) == 0:
                        # the plan was made for a queue that keeps what a failing source had produced; this one kept
                        # less (also a valid reading), so a retrieval planned for a non-empty queue is not applicable
                        continue
                    line["ev"] = ids.describe(q.get_event())
                elif op == "get_current":
                    line["t"] = o["t"]
                    line["evs"] = [ids.describe(e) for e in q.get_current_events(o["t"])]
                elif op == "len":
                    n = len(q)
                    line["n"] = int(n)
                elif op == "empty":
                    b = q.empty()
                    if not isinstance(b, (bool,)) and not (hasattr(b, "dtype") and b.dtype == bool):
                        ids.notes.append("empty() returned %r" % (b,))
                    line["b"] = bool(b)
                elif op == "last_ts":
                    line = _last_ts_line(q, ids)
                elif op == "round_trip":
                    q2 = queue_cls.from_json(q.to_json())
                    line["evs"] = ids.adopt_restored(q, q2)
                    q = q2
                else:
                    raise ValueError("unknown plan op %r" % (op,))
            except ValueError:
                raise
            except Exception as exc:  # the call raised: logged, and the plan stops here
                line = {"op": op, "exc": 1, "err": repr(exc)[:200]}
                if op == "get_current":
                    line["t"] = o["t"]
                lines.append(line)
                break
            lines.append(line)
    return lines, ids.notes


def _last_ts_line(q, ids):
    r = q.get_last_timestamp()
    if r is None:
        return {"op": "last_ts", "exc": 0, "none": True, "ts": 0}
    if not _is_int(r):
        ids.notes.append("get_last_timestamp() returned %r" % (r,))
        return {"op": "last_ts", "exc": 0, "none": False, "ts": -1}
    return {"op": "last_ts", "exc": 0, "none": False, "ts": int(r)}


# ----------------------------------------------------------------------------------------------
# second oracle: the specification transcribed as a sorted-list model
# ----------------------------------------------------------------------------------------------
def _key(e):
    return (e["ts"], PREC.get(e["kind"], 99))


class RefQueue:
    """pending = {id: {id, ts, kind}}; judge(line) returns None or (class, explanation)."""

    def __init__(self):
        self.pending = {}
        self.next_id = 1
        self.restored = False

    def judge(self, ln):
        op = ln["op"]
        if ln.get("exc"):
            return "exception", "the call raised %s" % ln.get("err")
        P = self.pending
        if op == "add":
            e = ln["ev"]
            assert e["id"] == self.next_id
            P[e["id"]] = dict(e)
            self.next_id += 1
        elif op == "add_many":
            for e in ln["evs"]:
                assert e["id"] == self.next_id
                P[e["id"]] = dict(e)
                self.next_id += 1
        elif op == "add_many_fail":
            k = ln["k"]
            assert [e["id"] for e in ln["evs"]] == list(range(self.next_id, self.next_id + len(ln["evs"])))
            offered = {e["id"]: e for e in ln["evs"][:k]}
            for e in ln["kept"]:
                if offered.get(e["id"]) != e:
                    return "kept-foreign", "after a failed add_events the queue holds %s, which its source never produced" % (e,)
                P[e["id"]] = dict(e)
            self.next_id += k
        elif op == "get_event":
            e = ln["ev"]
            if P.get(e["id"]) != e:
                return "not-pending", "returned %s, which is not a pending event (pending: %s)" % (e, self._show())
            m = min(_key(f) for f in P.values())
            if _key(e) != m:
                return "not-minimal", "returned %s although %s is pending with a smaller (ts, precedence)" % (
                    e, [f for f in P.values() if _key(f) == m])
            del P[e["id"]]
        elif op == "get_current":
            t, r = ln["t"], ln["evs"]
            due = {i for i, f in P.items() if f["ts"] <= t}
            got = [e["id"] for e in r]
            bad = [e for e in r if P.get(e["id"]) != e]
            if bad:
                return "not-pending", "get_current_events(%d) returned %s, not pending (pending: %s)" % (t, bad, self._show())
            if len(set(got)) != len(got):
                return "duplicate", "get_current_events(%d) returned an event twice: %s" % (t, r)
            if set(got) != due:
                miss = [P[i] for i in due - set(got)]
                extra = [P[i] for i in set(got) - due]
                return "wrong-set", "get_current_events(%d): missing %s, not due %s" % (t, miss, extra)
            for a, b in zip(r, r[1:]):
                if _key(a) > _key(b):
                    return "order", "get_current_events(%d) returned %s before %s" % (t, a, b)
            for i in got:
                del P[i]
        elif op == "len":
            if ln["n"] != len(P):
                return "wrong", "len() = %d with %d events pending (%s)" % (ln["n"], len(P), self._show())
        elif op == "empty":
            if ln["b"] != (len(P) == 0):
                return "wrong", "empty() = %s with %d events pending" % (ln["b"], len(P))
        elif op == "last_ts":
            if ln["none"] != (len(P) == 0):
                return "wrong", "get_last_timestamp() %s with %d events pending" % (
                    "is None" if ln["none"] else "= %d" % ln["ts"], len(P))
            if P and ln["ts"] != max(f["ts"] for f in P.values()):
                return "wrong", "get_last_timestamp() = %d, pending: %s" % (ln["ts"], self._show())
        elif op == "round_trip":
            r = ln["evs"]
            if len(r) != len(P) or any(P.get(e["id"]) != e for e in r) or len({e["id"] for e in r}) != len(r):
                return "content", "restored queue holds %s, original holds %s" % (r, self._show())
            self.restored = True
        else:
            raise ValueError(op)
        return None

    def _show(self):
        return sorted(self.pending.values(), key=lambda f: (_key(f), f["id"]))


def oracle(lines):
    """(number of lines accepted, None | (key suffix, explanation))."""
    ref = RefQueue()
    for k, ln in enumerate(lines):
        v = ref.judge(ln)
        if v is not None:
            pre = "restored:" if ref.restored and ln["op"] != "round_trip" else ""
            return k, ("%s%s:%s" % (pre, ln["op"], v[0]), v[1])
    return len(lines), None


# ----------------------------------------------------------------------------------------------
# batch validation by TLC
# ----------------------------------------------------------------------------------------------
def _strip(ln):
    """What goes to TLC: integers, booleans, strings; nothing else."""
    d = {k: v for k, v in ln.items() if k != "err"}
    return d


def tlc_validate(traces):
    """traces: list of line lists.  Returns list of (matched, n, pending at the rejection | None)."""
    if not traces:
        raise TlcFailure("trace validation: empty batch")
    payload = "\n".join(json.dumps({"tid": i + 1, "ev": [_strip(l) for l in t]}) for i, t in enumerate(traces)) + "\n"
    res = run_tlc("EventQueueTrace", "EventQueue_trace", workers=1, extra_files={BATCH_FILE: payload},
                  tags=("VRD",), timeout=1500)
    require_ok(res, "EventQueue trace validation")
    vs = res.emitted.get("VRD", [])
    out = [None] * len(traces)
    for v in vs:
        i = v["tid"] - 1
        if not (0 <= i < len(traces)) or out[i] is not None or v["n"] != len(traces[i]) or not (0 <= v["l"] <= v["n"]):
            raise TlcFailure("trace validation: inconsistent verdict %r" % (v,))
        out[i] = (v["l"], v["n"], None if v["l"] == v["n"] else v["pending"])
    if any(o is None for o in out):
        raise TlcFailure("trace validation: %d of %d traces without a verdict" % (sum(o is None for o in out), len(out)))
    if res.distinct != sum(o[0] + 1 for o in out):
        raise TlcFailure("trace validation: %d states for %d matched lines" % (res.distinct, sum(o[0] for o in out)))
    return out, res


# ----------------------------------------------------------------------------------------------
# self-test of the binding: one corrupted result per trace must be rejected exactly there
# ----------------------------------------------------------------------------------------------
SELFTEST_PLAN = [
    {"op": "add_many", "evs": [{"ts": 2, "kind": "Unplug"}, {"ts": 1, "kind": "Recompute"}, {"ts": 0, "kind": "Plugin"}]},
    {"op": "add", "ts": 1, "kind": "Plugin"},
    {"op": "len"}, {"op": "empty"}, {"op": "last_ts"},
    {"op": "round_trip"},
    {"op": "get_event"},
    {"op": "add", "ts": 1, "kind": "Unplug"},
    {"op": "get_current", "t": 1},
    {"op": "len"},
    {"op": "get_event"},
    {"op": "last_ts"},
]


class _IdealQueue:
    """Reference behaviour with the EventQueue API, used only if the implementation under test
    cannot even produce an acceptable base trace for the self-test (the self-test is about the
    TLC binding and must stay meaningful - and must not turn into a machinery failure - when the
    implementation is wrong)."""

    def __init__(self, events=None):
        self.items = list(events or [])

    @property
    def queue(self):
        return [(e.timestamp, e) for e in self.items]

    def add_event(self, e):
        self.items.append(e)

    def add_events(self, es):
        self.items.extend(es)

    def _sorted(self):      # the specification's order, not the (possibly wrong) precedence attribute
        return sorted(self.items, key=lambda e: (e.timestamp, PREC[e.event_type]))

    def get_event(self):
        e = self._sorted()[0]
        self.items.remove(e)
        return e

    def get_current_events(self, t):
        r = [e for e in self._sorted() if e.timestamp <= t]
        for e in r:
            self.items.remove(e)
        return r

    def __len__(self):
        return len(self.items)

    def empty(self):
        return not self.items

    def get_last_timestamp(self):
        return max(e.timestamp for e in self.items) if self.items else None

    def to_json(self):
        return self

    @classmethod
    def from_json(cls, other):
        return cls(other.items)


def corruptions(lines):
    """[(name, corrupted copy, index of the corrupted line)]: each differs from a correct log in ONE result."""
    out = []

    def variant(name, k, fn):
        c = json.loads(json.dumps(lines))
        fn(c[k])
        out.append((name, c, k))

    first = {}
    for k, ln in enumerate(lines):
        first.setdefault(ln["op"], k)
    last_len = max(k for k, ln in enumerate(lines) if ln["op"] == "len")
    variant("len+1", last_len, lambda l: l.__setitem__("n", l["n"] + 1))
    variant("empty-flipped", first["empty"], lambda l: l.__setitem__("b", not l["b"]))
    variant("last_ts-1", first["last_ts"], lambda l: l.__setitem__("ts", l["ts"] - 1))
    variant("last_ts-none", first["last_ts"], lambda l: l.__setitem__("none", True))
    k = first["get_current"]
    if len(lines[k]["evs"]) >= 2 and _key(lines[k]["evs"][0]) != _key(lines[k]["evs"][-1]):
        variant("get_current-reversed", k, lambda l: l["evs"].reverse())
        variant("get_current-one-missing", k, lambda l: l["evs"].pop())
    k = first["round_trip"]
    if lines[k]["evs"]:
        variant("round_trip-one-lost", k, lambda l: l["evs"].pop())
    # get_event handing out another pending event with a larger key: take it from the restored content
    k = first["get_event"]
    content = lines[first["round_trip"]]["evs"] if first["round_trip"] < k else []
    later = [e for e in content if _key(e) > _key(lines[k]["ev"])]
    if later:
        variant("get_event-not-minimal", k, lambda l: l.__setitem__("ev", dict(later[-1])))
    variant("get_event-foreign", k, lambda l: l["ev"].__setitem__("id", 0))
    return out


def selftest_traces():
    lines, _ = execute(SELFTEST_PLAN)
    n, why = oracle(lines)
    base = "real EventQueue"
    if why is not None:                      # the implementation itself is off: demonstrate on the ideal queue
        lines, _ = execute(SELFTEST_PLAN, _IdealQueue)
        n, why = oracle(lines)
        base = "ideal queue (the real one does not produce an acceptable base trace)"
        if why is not None:
            raise RuntimeError("self-test: reference oracle rejects the ideal queue: %r" % (why,))
    cs = corruptions(lines)
    if len(cs) < 8:
        raise RuntimeError("self-test: only %d corruptions could be built" % len(cs))
    for name, c, k in cs:
        m, w = oracle(c)
        if w is None or m != k:
            raise RuntimeError("self-test: reference oracle did not reject corruption %s at line %d (%r)" % (name, k, (m, w)))
    return base, lines, cs


# ----------------------------------------------------------------------------------------------
# one case = one plan (+ variant); used by ./check --replay as well
# ----------------------------------------------------------------------------------------------
def run_case(case):
    ops = saturate(case["ops"]) if case.get("saturated") else case["ops"]
    lines, notes = execute(ops)
    n, why = oracle(lines)
    return lines, notes, n, why


def replay_case(case):
    """Execute one plan on the real queue; judged by the reference oracle AND by TLC.  None | dict."""
    lines, notes, n, why = run_case(case)
    (v,), _ = tlc_validate([lines])
    if (v[0] == v[1]) != (why is None) or (why is not None and v[0] != n):
        raise TlcFailure("oracles disagree on the replayed case: TLC %r, reference %r" % (v, (n, why)))
    if why is None:
        return None
    return {"line": n, "call": lines[n], "class": why[0], "why": why[1], "spec_pending_by_tlc": v[2],
            "log": lines[:n + 1], "notes": notes}


def nontrivial(lines):
    """A trace is non-trivial if some retrieval had to choose between >= 2 pending events with
    different keys, i.e. the order mattered (judged on the log with the reference model)."""
    ref = RefQueue()
    hit = False
    for ln in lines:
        if ln["op"] in ("get_event", "get_current") and len({_key(f) for f in ref.pending.values()}) >= 2:
            hit = True
        if ref.judge(ln) is not None:
            break
    return hit


def _chunks(xs, n):
    for i in range(0, len(xs), n):
        yield xs[i:i + n]


def _work(case):
    lines, notes, n, why = run_case(case)
    return lines, notes, n, why, nontrivial(lines), jhash(lines)


def check_C11(tier, seed):
    # worker processes for executing the plans are forked first, while this process is still
    # single-threaded (TLC runs are driven from threads further down)
    import multiprocessing as mp
    pool = mp.get_context("fork").Pool(4)
    try:
        return _check_C11(tier, seed, pool)
    finally:
        pool.terminate()
        pool.join()


def _check_C11(tier, seed, pool):
    rep = Report("C11", tier, seed)
    thorough = tier == "thorough"
    rep.rule = ("one trace = one TLC-generated plan (call sequence over add_event / add_events / get_event / "
                "get_current_events / len / empty / get_last_timestamp / JSON round trip) executed on the real "
                "EventQueue, plain or saturated (all three queries after every call + complete drain); distinct by "
                "log content; non-trivial = some retrieval happened with >= 2 different keys pending")
    rep.assumptions += ["timestamps are integers >= 0; get_current_events(t) with integer t",
                        "get_event() is only called on a non-empty queue (IndexError otherwise; outside the property)",
                        "events with equal (timestamp, precedence) may come out in any order",
                        "Recompute events carry no payload: after a JSON round trip they are identified by timestamp; "
                        "Plugin/Unplug events by the session id of their EV and their type",
                        "the private attribute _timestep is not observed",
                        "pkg_resources.require (version lookup inside to_json/from_json) is memoised in the harness process"]
    # (A) the specification's theorems, exhaustively, and (B1) plans - independent TLC runs, side by side
    what = ("exhaustive model checking, call sequences of ANY length creating <= %d events, ts in 0..2: "
            "T1 GetEventMinimal, T2 OrderForEveryInterleaving, T3 CurrentExact/CurrentSplit, T4 Conservation, "
            "T5 QueriesReflect/QueriesPure, T6 RoundTripIdentity, T7 DrainSorted, T8 TimeThenUnplugPluginRecompute, TypeOK")
    heap_ev = 4 if thorough else 3
    ex = ThreadPoolExecutor(max_workers=8)
    f_mc = ex.submit(run_tlc, "MC_EventQueue", "EventQueue_mc", coverage=True, workers=4,
                     overrides={"MaxEv": "= 3"}, timeout=900)
    f_heap = ex.submit(run_tlc, "MC_EventQueueHeap", "EventQueueHeap_mc", coverage=True, workers=4 if thorough else 2,
                       overrides={"MaxEv": "= %d" % heap_ev}, timeout=1500)
    f_neg = ex.submit(run_tlc, "MC_EventQueueHeap", "EventQueueHeap_neg", workers=1, timeout=900)
    f_gen = ex.submit(run_tlc, "MC_EventQueue", "EventQueue_gen", workers=1, timeout=900)
    f_sim = ex.submit(run_tlc, "MC_EventQueue", "EventQueue_sim", workers=1, simulate=30000 if thorough else 3000,
                      depth=14, seed=seed, timeout=900)
    f_mc4 = ex.submit(run_tlc, "MC_EventQueue", "EventQueue_mc", coverage=False, workers=8, timeout=1800, heap="8g") if thorough else None
    try:
        gen, sim = f_gen.result(), f_sim.result()
        return _bind(rep, tier, seed, pool, gen, sim,
                     lambda: _model_checking(rep, what, heap_ev, f_mc, f_heap, f_neg, f_mc4))
    finally:
        ex.shutdown(wait=True)


def _model_checking(rep, what, heap_ev, f_mc, f_heap, f_neg, f_mc4):
    """Collect the model-checking runs started at the beginning (they ran beside plan execution)."""
    mc, heap, neg = f_mc.result(), f_heap.result(), f_neg.result()
    rep.add_tlc(mc, what % 3, "EventQueue_mc MaxEv=3", require_actions=MC_ACTIONS)
    require_ok(mc, "EventQueue model checking")
    rep.bounds["mc"] = {"MaxEv": 3, "Ts": "0..2", "kinds": 3, "add_events menu": "empty list, all 81 pairs, two triples",
                        "length of call sequences": "unbounded"}
    rep.add_tlc(heap, "mechanism level: heapq sift algorithms + tuple comparison + array-preserving JSON round trip; HeapInv, "
                      "NoDuplicates, Refines (every step is a step of EventQueue!Spec), <= %d events" % heap_ev,
                "EventQueueHeap_mc MaxEv=%d" % heap_ev,
                require_actions=["Add", "AddMany", "GetEvent", "GetCurrent", "QLen", "QEmpty", "QLastTs", "RoundTrip"])
    require_ok(heap, "EventQueueHeap refinement")
    if neg.ok or "property" not in (neg.violated or ""):
        raise TlcFailure("negative control: TLC did not refute the refinement for a round trip that reverses the heap "
                         "array (got %r) - the refinement check would be vacuous" % (neg.violated,))
    rep.tlc_runs.append({"what": "NEGATIVE CONTROL (expected to fail): round trip that reverses the array", "cfg": "EventQueueHeap_neg",
                         "cmd": neg.cmd, "generated": neg.generated, "distinct": neg.distinct, "depth": neg.depth,
                         "wall_s": round(neg.wall_s, 1), "ok": neg.ok, "violated": neg.violated})
    rep.bounds["mc_heap"] = {"MaxEv": heap_ev, "negative_control": "array reversed on load: Refines refuted by TLC after %d states"
                                                                   % neg.distinct}
    rep.notes.append("negative control of the refinement check: with the array reversed on load TLC refutes Refines (%s)"
                     % neg.violated)
    if f_mc4 is not None:
        mc4 = f_mc4.result()
        rep.add_tlc(mc4, what % 4, "EventQueue_mc MaxEv=4")
        require_ok(mc4, "EventQueue model checking (4 events)")
        rep.bounds["mc"]["MaxEv"] = 4


def _bind(rep, tier, seed, pool, gen, sim, model_checking):
    thorough = tier == "thorough"
    plan_sets = []          # (name, plans, share of plans that also get a saturated twin)
    require_ok(gen, "EventQueue plan generation")
    rep.add_tlc(gen, "plan generation, exhaustive: every sequence of 3 calls over the argument menus", "EventQueue_gen MaxOps=3")
    plan_sets.append(("exhaustive3", gen.emitted.get("BHV", []), 1.0 if thorough else 0.25))
    if thorough:
        gen4 = run_tlc("MC_EventQueue", "EventQueue_gen", workers=1, timeout=1500, overrides={"MaxOps": "= 4", "MaxEv": "= 12"})
        require_ok(gen4, "EventQueue plan generation (4 calls)")
        rep.add_tlc(gen4, "plan generation, exhaustive: every sequence of 4 calls over the argument menus", "EventQueue_gen MaxOps=4")
        plan_sets.append(("exhaustive4", gen4.emitted.get("BHV", []), 0.1))
    require_ok(sim, "EventQueue plan sampling")
    rep.add_tlc(sim, "plan generation, sampled: sequences of 9 calls, ts in 0..3 (-simulate)", "EventQueue_sim MaxOps=9")
    plan_sets.append(("sampled9", sim.emitted.get("BHV", []), 1.0))
    rep.bounds["plans"] = {name: len(pl) for name, pl, _ in plan_sets}
    rep.bounds["saturated_share"] = {name: share for name, _, share in plan_sets}

    # (B2) execution on the real code: every plan as it is, and (for the stated seeded share) its saturated twin
    rnd = random.Random(seed)
    cases, seen = [], set()
    for name, plans, share in plan_sets:
        for p in plans:
            k = jhash(p)
            if k in seen:
                continue
            seen.add(k)
            cases.append({"ops": p["ops"], "saturated": False})
            if share >= 1.0 or rnd.random() < share:
                cases.append({"ops": p["ops"], "saturated": True})
    if len(cases) < 1000:
        raise RuntimeError("plan generation produced only %d cases" % len(cases))
    done = pool.map(_work, cases, chunksize=250)
    traces = [d[0] for d in done]
    for d in done:
        rep.replayed += 1
        rep.count(d[5], d[4])

    # (B3) the binding self-test: corrupted logs ride along in the first batch
    base, st_lines, st_corr = selftest_traces()
    st = [st_lines] + [c for _, c, _ in st_corr]

    # (C) TLC validates the logs
    batches = list(_chunks(traces, max(2000, min(8000, -(-len(traces) // 4)))))
    batches[0] = batches[0] + st
    with ThreadPoolExecutor(max_workers=4) as vex:
        results = list(vex.map(tlc_validate, batches))
    model_checking()
    verdict_tlc = []
    tv = {"runs": 0, "states": 0, "wall_s": 0.0}
    for bi, (vs, res) in enumerate(results):
        tv["runs"] += 1
        tv["states"] += res.distinct
        tv["wall_s"] = round(tv["wall_s"] + res.wall_s, 1)
        if bi == 0:
            rep.add_tlc(res, "batch trace validation (first of %d runs): %d real-code traces against EventQueueTrace"
                        % (len(batches), len(vs)), "EventQueue_trace")
            # the states of a trace run are matched log lines, not model-checking states: kept out of the totals
            rep.states -= res.distinct
            rep.transitions -= res.generated
            st_v, vs = vs[-len(st):], vs[:-len(st)]
        verdict_tlc += vs
    rep.bounds["trace_validation"] = tv
    # self-test verdicts
    if base.startswith("real") and st_v[0][0] != st_v[0][1]:
        raise TlcFailure("self-test: TLC rejects the base trace the reference oracle accepts: %r" % (st_v[0],))
    for (name, c, k), v in zip(st_corr, st_v[1:]):
        if v[0] != k:
            raise TlcFailure("self-test of the binding FAILED: corruption %s at line %d, TLC matched %d of %d lines"
                             % (name, k, v[0], v[1]))
    rep.bounds["binding_selftest"] = {"base": base, "corrupted_traces_rejected_at_the_corrupted_line": len(st_corr),
                                      "corruptions": [n for n, _, _ in st_corr]}
    rep.notes.append("binding self-test: %d logs with one corrupted result each (%s) were all rejected by TLC and by the "
                     "reference oracle exactly at the corrupted line; base log from the %s"
                     % (len(st_corr), ", ".join(n for n, _, _ in st_corr), base))

    # verdicts: total, and both oracles must agree
    n_lines, failed = 0, []
    for idx, (c, d, v) in enumerate(zip(cases, done, verdict_tlc)):
        lines, notes, n, why = d[:4]
        n_lines += v[0]
        if (v[0] == v[1]) != (why is None) or v[0] != n:
            raise TlcFailure("oracles disagree: TLC matched %d/%d lines, reference oracle %d (%r); case %s"
                             % (v[0], v[1], n, why, json.dumps(c)))
        if why is None:
            rep.traces_accepted += 1
        else:
            failed.append((len(lines), idx))
    for _, idx in sorted(failed):           # shortest failing log first: it becomes the recorded replay of its class
        c, (lines, notes, n, why), v = cases[idx], done[idx][:4], verdict_tlc[idx]
        d = {"line": n, "call": lines[n], "class": why[0], "why": why[1], "spec_pending_by_tlc": v[2],
             "log": lines[:n + 1], "notes": notes}
        rep.violation("C11:" + why[0], "trace rejected at line %d (%s): %s" % (n, lines[n]["op"], why[1]),
                      {"kind": "case", "module": "props_eventqueue", "case": c, "mismatch": d})
    rep.bounds["trace_lines_matched_by_tlc"] = n_lines
    rep.exhaustive = True
    rep.notes.append("%d distinct plans (%s) -> %d executions on the real EventQueue (plain + saturated), all validated by "
                     "TLC in %d batches" % (len(seen), ", ".join("%d %s" % (len(pl), nm) for nm, pl, _ in plan_sets),
                                           len(cases), len(batches)))
    mid = next(i for i in range(len(cases) // 2, len(cases)) if cases[i]["saturated"])
    rep.sample({"case": cases[mid], "log": traces[mid]})
    rep.sample({"case": cases[-2], "log": traces[-2]})
    return rep.finish()
