"""Run TLC (exhaustive or -simulate) on a module of /verif/spec and parse what it printed.

Every run copies spec/ into a fresh scratch directory (outside /repo and /verif), so TLC's
metadir, generated files and trace inputs never touch the source tree, and removes it again.
"""
import json
import os
import re
import shutil
import subprocess
import tempfile
import time

VERIF = os.path.dirname(os.path.dirname(os.path.abspath(__file__)))
SPEC_DIR = os.path.join(VERIF, "spec")
TLA_CP = "/opt/veriftools/tla/tla2tools.jar:/opt/veriftools/tla/CommunityModules-deps.jar"


class TlcFailure(Exception):
    """TLC could not be run to a verdict (parse error, crash, timeout): machinery failure."""


class TlcResult:
    def __init__(self):
        self.generated = 0
        self.distinct = 0
        self.ok = False  # "No error has been found" / simulation finished cleanly
        self.violated = None  # name of violated invariant / property
        self.error_text = ""
        self.coverage = {}  # action name -> number of times taken (distinct:generated)
        self.emitted = {}  # tag -> list of decoded JSON payloads
        self.printed = []  # raw PrintT tuples that are not JSON emissions
        self.wall_s = 0.0
        self.cmd = ""
        self.stdout = ""
        self.depth = None


_EMIT = re.compile(r'^<<"([A-Z]+)", "(.*)">>\s*$')
_STATS = re.compile(r"^(\d+) states generated, (\d+) distinct states found")
_COV = re.compile(r"^<(\w+) line \d+, col \d+ to line \d+, col \d+ of module (\w+)(?: \([\d ]+\))?>: (\d+):(\d+)")
_INV = re.compile(r"^Error: Invariant (\S+) is violated")
_PROP = re.compile(r"^Error: (?:Action|Temporal) property (\S+)?.*violated")


def _unescape(s):
    # TLC prints a TLA+ string value: backslash and quote are escaped.
    return s.replace('\\"', '"').replace("\\\\", "\\")


def scratch_dir(prefix="verif-tlc-"):
    base = os.environ.get("VERIF_SCRATCH") or "/var/tmp"
    os.makedirs(base, exist_ok=True)
    return tempfile.mkdtemp(prefix=prefix, dir=base)


def run_tlc(module, cfg, *, simulate=None, depth=None, seed=None, workers=None, coverage=False,
            timeout=1800, env_extra=None, extra_files=None, keep=False, deadlock=True,
            dfs=False, tags=("BHV",), on_emit=None, overrides=None):
    """Run TLC on spec/<module>.tla with spec/cfg/<cfg>.cfg (or an absolute cfg path).

    simulate: number of behaviours per worker for `-simulate num=N` (None = exhaustive BFS).
    on_emit(tag, obj): if given, emissions are streamed to it instead of being collected.
    """
    sd = scratch_dir()
    res = TlcResult()
    try:
        for f in os.listdir(SPEC_DIR):
            if f.endswith(".tla"):
                shutil.copy(os.path.join(SPEC_DIR, f), sd)
        cfg_path = cfg if os.path.isabs(cfg) else os.path.join(SPEC_DIR, "cfg", cfg + ".cfg")
        with open(cfg_path) as fh:
            cfg_text = fh.read()
        for name, val in (overrides or {}).items():
            cfg_text, n = re.subn(r"(?m)^(\s*)%s\s*(=|<-).*$" % re.escape(name), r"\g<1>%s %s" % (name, val), cfg_text)
            if n != 1:
                raise TlcFailure("cfg override %s: %d matches in %s" % (name, n, cfg_path))
        with open(os.path.join(sd, "run.cfg"), "w") as fh:
            fh.write(cfg_text)
        for name, content in (extra_files or {}).items():
            with open(os.path.join(sd, name), "w") as fh:
                fh.write(content)
        if workers is None:
            workers = 1 if simulate else min(16, os.cpu_count() or 1)
        # an explicit heap limit: the JVM's default (a quarter of the machine per process) lets a dozen parallel
        # generation runs outgrow the memory together (the kernel then kills one: "TLC gave no verdict (exit -9)")
        jvm = ["java", "-XX:+UseParallelGC", "-Xss16m", "-Xmx3g" if (simulate or workers == 1) else "-Xmx12g"]
        if dfs:
            jvm.append("-Dtlc2.tool.queue.IStateQueue=StateDeque")
        cmd = jvm + ["-cp", TLA_CP, "tlc2.TLC", "-workers", str(workers), "-metadir",
                     os.path.join(sd, "meta"), "-noGenerateSpecTE", "-config", "run.cfg"]
        if not deadlock:
            cmd.append("-deadlock")
        if simulate:
            cmd += ["-simulate", "num=%d" % simulate]
            if depth:
                cmd += ["-depth", str(depth)]
        if seed is not None:
            cmd += ["-seed", str(seed)]
        if coverage:
            cmd += ["-coverage", "1"]
        cmd.append(module + ".tla")
        res.cmd = " ".join(cmd[cmd.index("tlc2.TLC"):])
        env = dict(os.environ)
        env.pop("JAVA_TOOL_OPTIONS", None)
        if env_extra:
            env.update(env_extra)
        t0 = time.time()
        proc = subprocess.Popen(cmd, cwd=sd, env=env, stdout=subprocess.PIPE,
                                stderr=subprocess.STDOUT, text=True, errors="replace")
        lines = []
        try:
            for line in proc.stdout:
                line = line.rstrip("\n")
                m = _EMIT.match(line)
                if m and m.group(1) in tags:
                    try:
                        obj = json.loads(_unescape(m.group(2)))
                    except ValueError as e:  # pragma: no cover
                        raise TlcFailure("cannot decode emission: %s: %r" % (e, line[:300]))
                    if on_emit is not None:
                        on_emit(m.group(1), obj)
                    else:
                        res.emitted.setdefault(m.group(1), []).append(obj)
                    continue
                lines.append(line)
                if time.time() - t0 > timeout:
                    proc.kill()
                    raise TlcFailure("TLC timed out after %ss: %s" % (timeout, res.cmd))
            proc.wait()
        finally:
            if proc.poll() is None:
                proc.kill()
        res.wall_s = time.time() - t0
        res.stdout = "\n".join(lines)
        in_err = False
        for line in lines:
            m = _STATS.match(line)
            if m:
                res.generated, res.distinct = int(m.group(1)), int(m.group(2))
            m = _COV.match(line)
            if m:
                res.coverage[m.group(1)] = res.coverage.get(m.group(1), 0) + int(m.group(4))
            m = _INV.match(line)
            if m:
                res.violated = m.group(1)
            elif line.startswith("Error:") and "violated" in line and res.violated is None:
                res.violated = line[len("Error:"):].strip()
            if line.startswith("Error:") and not in_err:
                in_err = True
                res.error_text = line
            if "No error has been found" in line:
                res.ok = True
            m = re.match(r"^The depth of the complete state graph search is (\d+)", line)
            if m:
                res.depth = int(m.group(1))
            if line.startswith("<<") and not _EMIT.match(line):
                res.printed.append(line)
        if simulate and proc.returncode == 0 and not res.error_text:
            res.ok = True
        if not res.ok and res.violated is None:
            tail = "\n".join(lines[-40:])
            raise TlcFailure("TLC gave no verdict (exit %s)\n%s\n%s" % (proc.returncode, res.cmd, tail))
        return res
    finally:
        if not keep:
            shutil.rmtree(sd, ignore_errors=True)
        else:
            res.scratch = sd


def require_ok(res, what):
    """Model checking must pass on the specification itself; otherwise the spec is wrong."""
    if not res.ok:
        raise TlcFailure("%s: TLC reports %s\n%s" % (what, res.violated or res.error_text,
                                                       res.stdout[-3000:]))
    return res
